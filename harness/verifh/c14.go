//go:build verif

package main

import (
	"encoding/json"
	"fmt"
	"math/rand"
	"os"
	"path/filepath"
	"sort"
	"strings"
)

// C14 / C13 (H-data): the data model handed to templates. A probe template dumps
// every accessor of the documented data model; the dump is compared with the Lean
// model (Gen/Data). A second probe re-emits every interface as Go source purely
// from the data model and the toolchain judges it (mutual assignability with the
// original, a forwarding wrapper built from the call lists).

type VarJ struct {
	Name        string `json:"name"`
	Type        TyJ    `json:"type"`
	Replacement *TyJ   `json:"replacement,omitempty"`
}

type MethodJ struct {
	Name     string `json:"name"`
	Params   []VarJ `json:"params"`
	Results  []VarJ `json:"results"`
	Variadic bool   `json:"variadic"`
	From     string `json:"from,omitempty"` // "" own method, else the embedded interface it comes from (source text)
}

type TParamJ struct {
	Name       string `json:"name"`
	Constraint TyJ    `json:"constraint"`
}

type IfaceJ struct {
	Name       string    `json:"name"`
	StructName string    `json:"structName"`
	TypeParams []TParamJ `json:"typeParams"`
	Methods    []MethodJ `json:"methods"` // the full method set, sorted by name
	Embeds     []string  `json:"embeds"`  // embedded interfaces as source text
	// the declaration as a tree: own method names and, recursively, the embedded interfaces' (C02: method-set model)
	Tree *IfaceTreeJ `json:"tree,omitempty"`
}

type IfaceTreeJ struct {
	Src    string       `json:"src"`
	Own    []string     `json:"own"`
	Embeds []IfaceTreeJ `json:"embeds"`
}

type ReplaceJ struct {
	FromPkg, FromName string
	To                TyJ
}

type DataInput struct {
	Placement  string   `json:"placement"` // inpkg | testpkg | separate
	DstPkgPath string   `json:"dstPkgPath"`
	InPackage  bool     `json:"inPackage"`
	SrcPkgName string   `json:"srcPkgName"`
	PkgName    string   `json:"pkgName"`
	Ifaces     []IfaceJ `json:"ifaces"`
	// replace-type entries (C13) and the level they are written at
	Replace      []ReplaceJ `json:"replace,omitempty"`
	ReplaceLevel string     `json:"replaceLevel,omitempty"` // root | package | interface | entry
	// replace-type entry of an unrelated package tree (decoy): must not reach the package under test
	DecoyReplace *ReplaceJ `json:"decoyReplace,omitempty"`
	Stream       string     `json:"stream,omitempty"`       // "" main, or the known-finding class probed
}

type c14 struct{ prop string }

func init() {
	register("C14", c14{"C14"})
	register("C13", c14{"C13"})
}

type embedDecl struct {
	src     string
	pkg     string
	methods []MethodJ // own methods
	embeds  []string  // src of the interfaces it embeds itself
}

var errT = TyJ{K: "universe", Name: "error"}

var embedCatalogue = []embedDecl{
	{"alpha.I", pkgAlpha, []MethodJ{{Name: "M"}}, nil},
	{"LocalI", pkgSrc, []MethodJ{{Name: "L"}}, nil},
	{"io.Reader", "io", []MethodJ{{Name: "Read", Params: []VarJ{{Name: "p", Type: TyJ{K: "slice", Elem: &TyJ{K: "basic", Name: "byte"}}}},
		Results: []VarJ{{Name: "n", Type: basicT("int")}, {Name: "err", Type: errT}}}}, nil},
	{"alpha.GI[int]", pkgAlpha, []MethodJ{{Name: "Get", Results: []VarJ{{Name: "", Type: basicT("int")}}}}, nil},
	{"alpha.AI", pkgAlpha, []MethodJ{{Name: "M"}}, nil},
	{"alpha.Closer", pkgAlpha, []MethodJ{{Name: "Close2", Results: []VarJ{{Name: "", Type: errT}}}}, nil},
	// two levels, and a diamond when embedded next to alpha.I or alpha.Closer
	{"alpha.RC", pkgAlpha, []MethodJ{{Name: "Flush2"}}, []string{"alpha.I", "alpha.Closer"}},
	{"io.ReadCloser", "io", nil, []string{"io.Reader", "io.Closer"}},
	{"alpha.RG", pkgAlpha, []MethodJ{{Name: "RGOnly"}}, []string{"alpha.GI[int]"}},
	{"io.Closer", "io", []MethodJ{{Name: "Close", Results: []VarJ{{Name: "", Type: errT}}}}, nil},
}

var c14Tick int

func embedByName(src string) embedDecl {
	for _, e := range embedCatalogue {
		if e.src == src {
			return e
		}
	}
	panic("unknown embedded interface " + src)
}

// flatten: every method reachable from e with the interface that declares it
func (e embedDecl) flatten() (ms []MethodJ, origin []string) {
	for _, m := range e.methods {
		ms = append(ms, m)
		origin = append(origin, e.src+"."+m.Name)
	}
	for _, s := range e.embeds {
		fm, fo := embedByName(s).flatten()
		ms = append(ms, fm...)
		origin = append(origin, fo...)
	}
	return
}

func (e embedDecl) tree() IfaceTreeJ {
	t := IfaceTreeJ{Src: e.src, Own: []string{}, Embeds: []IfaceTreeJ{}}
	for _, m := range e.methods {
		t.Own = append(t.Own, m.Name)
	}
	for _, s := range e.embeds {
		t.Embeds = append(t.Embeds, embedByName(s).tree())
	}
	return t
}

var c14ParamNames = []string{"x", "ctx", "s", "", "_", "y", "err", "n", "v", "a", "b", "val", "in", "out", "http", "alpha", "io", "src", "data", "opts", "", ""}
var c14CaptureNames = []string{"string", "int", "Local", "T", "error", "byte"} // names that are identifiers of type strings (known-finding stream)
var c14MethodNames = []string{"Do", "Get", "Put", "Close", "Apply", "Load", "Store", "Walk", "Zip"}

func genIface(r *rand.Rand, idx int, placement string, stream string) IfaceJ {
	it := IfaceJ{Name: fmt.Sprintf("Iface%d", idx)}
	if r.Intn(5) == 0 {
		it.Name = fmt.Sprintf("iface%d", idx) // unexported
	}
	g := &tyGen{r: r, allowSrc: stream != "ensure-split", unexpOK: placement == "inpkg", exportedOnly: placement != "inpkg"}
	if placement != "inpkg" && !strings.HasPrefix(it.Name, "I") {
		// an unexported interface cannot be named from another package
		it.Name = fmt.Sprintf("Iface%d", idx)
	}
	// generic?
	if r.Intn(4) == 0 {
		ntp := 1 + r.Intn(2)
		names := []string{"T", "K", "V", "U"}
		if stream == "lowercase-typeparam" {
			names = []string{"t", "id", "elem"}
		}
		for i := 0; i < ntp; i++ {
			c := TyJ{K: "universe", Name: "any", Alias: true}
			switch r.Intn(5) {
			case 0:
				c = TyJ{K: "universe", Name: "comparable"}
			case 1:
				c = TyJ{K: "named", Pkg: pkgAlpha, PkgName: "alpha", Name: "I", UnderNillable: true}
			case 2:
				c = TyJ{K: "iface", Embeds: []TyJ{{K: "union", Terms: []TermJ{{Tilde: true, Type: basicT("int")}, {Tilde: false, Type: basicT("string")}}}}}
			case 3:
				// an inline constraint that mentions its own type parameter: `T interface{ Less(other T) bool }`
				c = TyJ{K: "iface", Methods: []FieldJ{{Name: "Less", Type: TyJ{K: "func", Params: []FieldJ{{Name: "other", Type: TyJ{K: "typeparam", Name: names[i]}}}, Results: []FieldJ{{Type: basicT("bool")}}}}}}
			}
			it.TypeParams = append(it.TypeParams, TParamJ{Name: names[i], Constraint: c})
			g.typeParam = append(g.typeParam, names[i])
		}
	}
	used := map[string]bool{}
	nm := 1 + r.Intn(4)
	if r.Intn(12) == 0 {
		nm = 0
	}
	for k := 0; k < nm; k++ {
		name := pick(r, c14MethodNames)
		if used[name] {
			continue
		}
		used[name] = true
		m := MethodJ{Name: name}
		np := r.Intn(4)
		pn := map[string]bool{}
		for i := 0; i < np; i++ {
			n := pick(r, c14ParamNames)
			if stream == "capture" && r.Intn(2) == 0 {
				n = pick(r, c14CaptureNames)
			}
			if n != "" && n != "_" && pn[n] {
				n = fmt.Sprintf("p%d", i)
			}
			pn[n] = true
			m.Params = append(m.Params, VarJ{Name: n, Type: g.gen(0)})
		}
		// Go: either all parameters are named or none
		anyNamed, anyUnnamed := false, false
		for _, p := range m.Params {
			if p.Name == "" {
				anyUnnamed = true
			} else {
				anyNamed = true
			}
		}
		if anyNamed && anyUnnamed {
			for i := range m.Params {
				if m.Params[i].Name == "" {
					m.Params[i].Name = "_"
				}
			}
		}
		if np > 0 && r.Intn(4) == 0 {
			e := m.Params[np-1].Type
			m.Params[np-1].Type = TyJ{K: "slice", Elem: &e}
			m.Variadic = true
		}
		nr := r.Intn(4)
		named := nr > 0 && r.Intn(4) == 0
		for i := 0; i < nr; i++ {
			v := VarJ{Type: g.gen(0)}
			if i == nr-1 && r.Intn(2) == 0 {
				v.Type = TyJ{K: "universe", Name: "error"}
			}
			if named {
				v.Name = []string{"res", "err2", "ok2", "out2"}[i]
			}
			m.Results = append(m.Results, v)
		}
		it.Methods = append(it.Methods, m)
	}
	if placement == "inpkg" && !used["VisitNode"] && stream == "" && r.Intn(2) == 0 {
		// unnamed parameters whose derived name would be the name of their own (unexported, local) type: the name
		// generator has to step aside, also when the type is reached through a pointer
		lu := TyJ{K: "named", Pkg: pkgSrc, PkgName: "src", Name: "localUnexp"}
		lu2 := lu
		used["VisitNode"], used["VisitOnly"] = true, true
		it.Methods = append(it.Methods, MethodJ{Name: "VisitNode", Params: []VarJ{{Type: TyJ{K: "pointer", Elem: &lu}}, {Type: lu2}},
			Results: []VarJ{{Type: TyJ{K: "universe", Name: "error"}}}})
		// … and when the pointer is the only mention of the type in the signature (nothing else reserves its name)
		lu3 := lu
		it.Methods = append(it.Methods, MethodJ{Name: "VisitOnly", Params: []VarJ{{Type: TyJ{K: "pointer", Elem: &lu3}}},
			Results: []VarJ{{Type: TyJ{K: "universe", Name: "error"}}}})
	}
	if stream == "" && !used["CopyTo"] && r.Intn(3) == 0 {
		// a parameter named like the type of a *later* parameter or result of the same signature, where that type is
		// written plainly (not nested inside a composite type: that is the open finding K1): the parameter is renamed
		used["CopyTo"], used["Handle"] = true, true
		it.Methods = append(it.Methods,
			MethodJ{Name: "CopyTo", Params: []VarJ{{Name: "string", Type: basicT("int")}, {Name: "dst", Type: basicT("string")}}, Results: []VarJ{{Type: basicT("int")}}},
			MethodJ{Name: "Handle", Params: []VarJ{{Name: "error", Type: basicT("string")}, {Name: "int", Type: basicT("bool")}}, Results: []VarJ{{Type: basicT("int")}, {Type: TyJ{K: "universe", Name: "error"}}}})
	}
	if stream == "" && !used["PutBytes"] && r.Intn(3) == 0 {
		// unnamed parameters of named types whose derived names are the predeclared `byte` / `rune`, which the same
		// signature uses inside composite types
		bt := TyJ{K: "named", Pkg: pkgSrc, PkgName: "src", Name: "Byte"}
		rt := TyJ{K: "named", Pkg: pkgSrc, PkgName: "src", Name: "Rune"}
		bb, rr := basicT("byte"), basicT("rune")
		used["PutBytes"], used["PutRunes"] = true, true
		it.Methods = append(it.Methods,
			MethodJ{Name: "PutBytes", Params: []VarJ{{Type: bt}, {Type: TyJ{K: "slice", Elem: &bb}}}, Results: []VarJ{{Type: basicT("int")}, {Type: TyJ{K: "universe", Name: "error"}}}},
			MethodJ{Name: "PutRunes", Params: []VarJ{{Type: rt}, {Type: TyJ{K: "slice", Elem: &rr}}}, Variadic: true, Results: []VarJ{{Type: TyJ{K: "universe", Name: "error"}}}})
	}
	// embedded interfaces: a method may be reached along several paths as long as it is the same declaration
	tree := &IfaceTreeJ{Src: it.Name, Own: []string{}, Embeds: []IfaceTreeJ{}}
	for _, m := range it.Methods {
		tree.Own = append(tree.Own, m.Name)
	}
	originOf := map[string]string{}
	for n := range used {
		originOf[n] = "own"
	}
	// every fifth interface reaches one instantiation of a generic interface along two paths that instantiate it in
	// different packages (alpha.RG embeds GI[int] in alpha, the interface itself embeds alpha.GI[int] in its own
	// package): one method, two objects of the type checker
	c14Tick++
	forcePair := stream == "" && c14Tick%5 == 0
	if draw := r.Intn(3) == 0; draw || forcePair {
		for _, e := range embedCatalogue {
			force := forcePair && (e.src == "alpha.RG" || e.src == "alpha.GI[int]")
			if skip := r.Intn(3) != 0; skip && !force {
				continue
			}
			fm, fo := e.flatten()
			clash := false
			for i, m := range fm {
				if o, ok := originOf[m.Name]; ok && o != fo[i] {
					clash = true
				}
			}
			if clash {
				continue
			}
			it.Embeds = append(it.Embeds, e.src)
			tree.Embeds = append(tree.Embeds, e.tree())
			for i, m := range fm {
				if _, ok := originOf[m.Name]; ok {
					continue // already in the set through another path
				}
				originOf[m.Name] = fo[i]
				used[m.Name] = true
				mm := m
				mm.From = e.src
				it.Methods = append(it.Methods, mm)
			}
		}
	}
	it.Tree = tree
	sort.Slice(it.Methods, func(i, j int) bool { return it.Methods[i].Name < it.Methods[j].Name })
	mock := "Mock"
	if it.Name[0] >= 'a' && it.Name[0] <= 'z' {
		mock = "mock"
	}
	it.StructName = mock + it.Name
	return it
}

func (p c14) Generate(c *Ctx) []any {
	n := c.Budget(60, 600)
	var out []any
	for i := 0; i < n; i++ {
		out = append(out, genData(c.Rng, i, p.prop, ""))
	}
	if p.prop == "C14" {
		// class-specific streams for the open findings: every failure there must carry the class's signature
		for i := 0; i < n/10+2; i++ {
			out = append(out, genData(c.Rng, i, p.prop, "capture"))
			out = append(out, genData(c.Rng, i, p.prop, "lowercase-typeparam"))
		}
	}
	return out
}

func genData(r *rand.Rand, idx int, prop string, stream string) DataInput {
	in := DataInput{Placement: []string{"inpkg", "testpkg", "separate"}[idx%3], SrcPkgName: "src", Stream: stream}
	switch in.Placement {
	case "inpkg":
		in.DstPkgPath, in.InPackage, in.PkgName = pkgSrc, true, "src"
	case "testpkg":
		in.DstPkgPath, in.InPackage, in.PkgName = pkgSrc, false, "src_test"
	default:
		in.DstPkgPath, in.InPackage, in.PkgName = "example.com/m/mocks", false, "mocks"
	}
	ni := 1 + r.Intn(3)
	if stream == "ensure-split" && ni < 2 {
		ni = 2
	}
	for k := 0; k < ni; k++ {
		in.Ifaces = append(in.Ifaces, genIface(r, k, in.Placement, stream))
	}
	if prop == "C13" {
		c13Decorate(r, &in)
	}
	return in
}

// ---- module emission ---------------------------------------------------------------

const dataProbe = "FILE\x1f{{.PkgName}}\x1f{{.SrcPkgQualifier}}\n" +
	"{{range .Imports}}IMPORT\x1f{{.Path}}\x1f{{.Qualifier}}\x1f{{.ImportStatement}}\n{{end}}" +
	"{{range .Interfaces}}IFACE\x1f{{.Name}}\x1f{{.StructName}}\x1f{{.TypeConstraint}}\x1f{{.TypeInstantiation}}\n" +
	"{{range .TypeParams}}TPARAM\x1f{{.Name}}\x1f{{.TypeString}}\x1f{{.TypeStringEllipsis}}\x1f{{.TypeStringVariadicUnderlying}}\x1f{{.MethodArg}}\x1f{{.CallName true}}\x1f{{.Var.Nillable}}\x1f{{.Var.IsSlice}}\x1f{{.Variadic}}\n{{end}}" +
	"{{range .Methods}}METHOD\x1f{{.Name}}\x1f{{.Declaration}}\x1f{{.Signature}}\x1f{{.ArgList}}\x1f{{.ArgTypeList}}\x1f{{.ArgTypeListEllipsis}}\x1f{{.ArgCallList}}\x1f{{.ArgCallListNoEllipsis}}\x1f{{.ReturnArgTypeList}}\x1f{{.ReturnArgNameList}}\x1f{{.ReturnArgList}}\x1f{{.Call}}\x1f{{.IsVariadic}}\x1f{{.AcceptsContext}}\x1f{{.ReturnsError}}\n" +
	"{{range .Params}}PARAM\x1f{{.Name}}\x1f{{.TypeString}}\x1f{{.TypeStringEllipsis}}\x1f{{.TypeStringVariadicUnderlying}}\x1f{{.MethodArg}}\x1f{{.CallName true}}\x1f{{.Var.Nillable}}\x1f{{.Var.IsSlice}}\x1f{{.Variadic}}\n{{end}}" +
	"{{range .Returns}}RESULT\x1f{{.Name}}\x1f{{.TypeString}}\x1f{{.TypeStringEllipsis}}\x1f{{.TypeStringVariadicUnderlying}}\x1f{{.MethodArg}}\x1f{{.CallName true}}\x1f{{.Var.Nillable}}\x1f{{.Var.IsSlice}}\x1f{{.Variadic}}\n{{end}}" +
	"{{end}}{{end}}"

// re-emits every interface as Go source purely from the data model
const reemitProbe = `// Code generated by probe. DO NOT EDIT.
package {{.PkgName}}

import (
	ordalpha "example.com/m/ext/alpha"
{{- if .SrcPkgQualifier}}
	origsrc "example.com/m/src"
{{- end}}
{{- range .Imports}}
	{{.ImportStatement}}
{{- end}}
)

var _ ordalpha.Ord
{{range $i := .Interfaces}}
type Re{{$i.Name}}{{$i.TypeConstraint}} interface {
{{- range $i.Methods}}
	{{.Declaration}}
{{- end}}
}

func check{{$i.Name}}{{$i.TypeConstraint}}(a Re{{$i.Name}}{{$i.TypeInstantiation}}, b {{if $.SrcPkgQualifier}}origsrc.{{end}}{{$i.Name}}{{$i.TypeInstantiation}}) {
	a = b
	b = a
	_, _ = a, b
{{- range $i.Methods}}
	var _ func({{.ArgTypeListEllipsis}}) {{.ReturnArgTypeList}} = a.{{.Name}}
{{- end}}
}

type Fwd{{$i.Name}}{{$i.TypeConstraint}} struct {
	inner {{if $.SrcPkgQualifier}}origsrc.{{end}}{{$i.Name}}{{$i.TypeInstantiation}}
}
{{range $i.Methods}}
func (fwdRecv Fwd{{$i.Name}}{{$i.TypeInstantiation}}) {{.Declaration}} {
	// the type strings must keep their meaning inside the body: no parameter name may capture them
{{- range .Params}}
	var _ {{.TypeString}}
{{- end}}
{{- range .Returns}}
	var _ {{.TypeString}}
{{- end}}
	{{.ReturnStatement}} fwdRecv.inner.{{.Call}}
}
{{end}}
var _ {{if $.SrcPkgQualifier}}origsrc.{{end}}{{$i.Name}}{{if $i.TypeParams}}[{{range $idx, $tp := $i.TypeParams}}{{if $idx}}, {{end}}{{if eq $tp.TypeString "comparable"}}int{{else if eq $tp.TypeString "any"}}string{{else if eq $tp.TypeString "alpha.I"}}alpha.I{{else if hasPrefix "interface{Less" $tp.TypeString}}ordalpha.Ord{{else}}int{{end}}{{end}}]{{end}} = Fwd{{$i.Name}}{{if $i.TypeParams}}[{{range $idx, $tp := $i.TypeParams}}{{if $idx}}, {{end}}{{if eq $tp.TypeString "comparable"}}int{{else if eq $tp.TypeString "any"}}string{{else if eq $tp.TypeString "alpha.I"}}alpha.I{{else if hasPrefix "interface{Less" $tp.TypeString}}ordalpha.Ord{{else}}int{{end}}{{end}}]{{end}}{}
{{end}}
`

func srcQualifiers(used map[string]string) (map[string]string, []string) {
	// qualifiers of the *source* file: the package name, aliased on clashes (deterministic by path)
	paths := sortedKeys(used)
	q := map[string]string{}
	taken := map[string]bool{}
	var stmts []string
	for _, p := range paths {
		if p == pkgSrc {
			q[p] = ""
			continue
		}
		name := used[p]
		al := name
		for i := 2; taken[al]; i++ {
			al = fmt.Sprintf("%s%d", name, i)
		}
		taken[al] = true
		q[p] = al
		if al == name {
			stmts = append(stmts, fmt.Sprintf("\t%q", p))
		} else {
			stmts = append(stmts, fmt.Sprintf("\t%s %q", al, p))
		}
	}
	return q, stmts
}

func emitSource(in *DataInput) string {
	used := map[string]string{}
	for _, it := range in.Ifaces {
		for _, tp := range it.TypeParams {
			pkgsIn(tp.Constraint, used)
		}
		for _, m := range it.Methods {
			if m.From != "" {
				continue
			}
			for _, v := range append(append([]VarJ{}, m.Params...), m.Results...) {
				pkgsIn(v.Type, used)
			}
		}
		for _, e := range it.Embeds {
			switch {
			case strings.HasPrefix(e, "alpha."):
				used[pkgAlpha] = "alpha"
			case strings.HasPrefix(e, "io."):
				used["io"] = "io"
			}
		}
	}
	q, stmts := srcQualifiers(used)
	qf := func(p string) string { return q[p] }
	var b strings.Builder
	b.WriteString("package src\n\n")
	if len(stmts) > 0 {
		b.WriteString("import (\n" + strings.Join(stmts, "\n") + "\n)\n\n")
	}
	for _, d := range catalogue {
		if d.Pkg == pkgSrc {
			b.WriteString(d.Decl + "\n\n")
		}
	}
	b.WriteString("var _ localUnexp\n\n")
	for _, it := range in.Ifaces {
		b.WriteString("type " + it.Name)
		if len(it.TypeParams) > 0 {
			tps := []string{}
			for _, tp := range it.TypeParams {
				tps = append(tps, tp.Name+" "+goSrc(tp.Constraint, qf))
			}
			b.WriteString("[" + strings.Join(tps, ", ") + "]")
		}
		b.WriteString(" interface {\n")
		for _, e := range it.Embeds {
			s := e
			// source-file qualifier of the embedded interface's package
			if strings.HasPrefix(e, "alpha.") {
				s = q[pkgAlpha] + strings.TrimPrefix(e, "alpha")
			}
			if strings.HasPrefix(e, "io.") {
				s = q["io"] + strings.TrimPrefix(e, "io")
			}
			b.WriteString("\t" + s + "\n")
		}
		for _, m := range it.Methods {
			if m.From != "" {
				continue
			}
			sig := TyJ{K: "func", Variadic: m.Variadic}
			for _, p := range m.Params {
				sig.Params = append(sig.Params, FieldJ{Name: p.Name, Type: p.Type})
			}
			for _, r := range m.Results {
				sig.Results = append(sig.Results, FieldJ{Name: r.Name, Type: r.Type})
			}
			b.WriteString("\t" + m.Name + goSig(sig, qf) + "\n")
		}
		b.WriteString("}\n\n")
	}
	return b.String()
}

func parseDump(s string) map[string]any {
	out := map[string]any{}
	imports := []any{}
	ifaces := []any{}
	var curI map[string]any
	var curM map[string]any
	b := func(x string) bool { return x == "true" }
	varOf := func(f []string) map[string]any {
		return map[string]any{"name": f[1], "typeString": f[2], "typeStringEllipsis": f[3], "typeStringVariadicUnderlying": f[4], "methodArg": f[5],
			"callName": f[6], "nillable": b(f[7]), "isSlice": b(f[8]), "variadic": b(f[9])}
	}
	for _, line := range strings.Split(s, "\n") {
		f := strings.Split(line, "\x1f")
		switch f[0] {
		case "FILE":
			if len(f) >= 3 {
				out["pkgName"], out["srcPkgQualifier"] = f[1], f[2]
			}
		case "IMPORT":
			if len(f) >= 4 {
				imports = append(imports, []any{f[1], f[2], f[3]})
			}
		case "IFACE":
			if len(f) >= 5 {
				curI = map[string]any{"name": f[1], "structName": f[2], "typeConstraint": f[3], "typeInstantiation": f[4], "typeParams": []any{}, "methods": []any{}}
				ifaces = append(ifaces, curI)
			}
		case "TPARAM":
			if len(f) >= 10 && curI != nil {
				curI["typeParams"] = append(curI["typeParams"].([]any), varOf(f))
			}
		case "METHOD":
			if len(f) >= 16 && curI != nil {
				curM = map[string]any{"name": f[1], "declaration": f[2], "signature": f[3], "argList": f[4], "argTypeList": f[5], "argTypeListEllipsis": f[6],
					"argCallList": f[7], "argCallListNoEllipsis": f[8], "returnArgTypeList": f[9], "returnArgNameList": f[10], "returnArgList": f[11], "call": f[12],
					"isVariadic": b(f[13]), "acceptsContext": b(f[14]), "returnsError": b(f[15]), "params": []any{}, "results": []any{}}
				curI["methods"] = append(curI["methods"].([]any), curM)
			}
		case "PARAM":
			if len(f) >= 10 && curM != nil {
				curM["params"] = append(curM["params"].([]any), varOf(f))
			}
		case "RESULT":
			if len(f) >= 10 && curM != nil {
				curM["results"] = append(curM["results"].([]any), varOf(f))
			}
		}
	}
	out["imports"] = imports
	out["ifaces"] = ifaces
	return out
}

func dataConfig(in *DataInput, dir, templ, filename string, formatter string) string {
	var cfg strings.Builder
	if templ == "testify" || templ == "matryer" {
		fmt.Fprintf(&cfg, "template: %s\nformatter: %s\nforce-file-write: true\nfilename: %s\n", templ, formatter, filename)
	} else {
		fmt.Fprintf(&cfg, "template: file://%s\nrequire-template-schema-exists: false\nformatter: %s\nforce-file-write: true\nfilename: %s\n", filepath.Join(dir, templ), formatter, filename)
	}
	switch in.Placement {
	case "inpkg":
		cfg.WriteString("pkgname: src\n")
	case "testpkg":
		cfg.WriteString("pkgname: src_test\n")
	default:
		fmt.Fprintf(&cfg, "dir: %s\npkgname: mocks\n", filepath.Join(dir, "mocks"))
	}
	writeReplace := func(indent string) {
		if len(in.Replace) == 0 {
			return
		}
		cfg.WriteString(indent + "replace-type:\n")
		byPkg := map[string][]ReplaceJ{}
		for _, r := range in.Replace {
			byPkg[r.FromPkg] = append(byPkg[r.FromPkg], r)
		}
		for _, p := range sortedKeys(byPkg) {
			fmt.Fprintf(&cfg, "%s  %s:\n", indent, p)
			for _, r := range byPkg[p] {
				fmt.Fprintf(&cfg, "%s    %s:\n%s      pkg-path: %s\n%s      type-name: %s\n", indent, r.FromName, indent, r.To.Pkg, indent, r.To.Name)
			}
		}
	}
	if in.ReplaceLevel == "root" {
		writeReplace("")
	}
	cfg.WriteString("packages:\n")
	if in.ReplaceLevel == "parent" {
		// the module's root package, recursive: the mocked package is a listed sub-package (with listed interfaces)
		// that inherits the setting
		cfg.WriteString("  example.com/m:\n    config:\n      recursive: true\n")
		writeReplace("      ")
	}
	fmt.Fprintf(&cfg, "  %s:\n", pkgSrc)
	if in.ReplaceLevel == "package" {
		cfg.WriteString("    config:\n")
		writeReplace("      ")
	}
	{
		cfg.WriteString("    interfaces:\n")
		for _, it := range in.Ifaces {
			fmt.Fprintf(&cfg, "      %s:\n", it.Name)
			if in.ReplaceLevel != "interface" && in.ReplaceLevel != "entry" {
				continue
			}
			if in.ReplaceLevel == "interface" {
				cfg.WriteString("        config:\n")
				writeReplace("          ")
			} else {
				cfg.WriteString("        configs:\n          - structname: " + it.StructName + "\n")
				writeReplace("            ")
			}
		}
	}
	if in.DecoyReplace != nil {
		d := in.DecoyReplace
		y, _ := decoyPackages(nil)
		y = strings.Replace(y, "      recursive: true\n", fmt.Sprintf("      recursive: true\n      replace-type:\n        %s:\n          %s:\n            pkg-path: %s\n            type-name: %s\n", d.FromPkg, d.FromName, d.To.Pkg, d.To.Name), 1)
		cfg.WriteString(y)
	}
	return cfg.String()
}

func (p c14) Run(c *Ctx, raw json.RawMessage) Case {
	var in DataInput
	if err := json.Unmarshal(raw, &in); err != nil {
		return Case{Oracle: fail("bad-input", "%v", err)}
	}
	dir, err := os.MkdirTemp(c.Work, "c14-")
	if err != nil {
		return Case{Oracle: fail("harness", "%v", err)}
	}
	defer os.RemoveAll(dir)
	files := supportFiles()
	files["go.mod"] = goModText + "\nrequire github.com/stretchr/testify v1.10.0\n\nrequire (\n\tgithub.com/davecgh/go-spew v1.1.1 // indirect\n\tgithub.com/pmezard/go-difflib v1.0.0 // indirect\n\tgithub.com/stretchr/objx v0.5.2 // indirect\n\tgopkg.in/yaml.v3 v3.0.1 // indirect\n)\n"
	if b, err := os.ReadFile(filepath.Join(c.Src, "go.sum")); err == nil {
		files["go.sum"] = string(b)
	}
	files["src/src.go"] = emitSource(&in)
	if in.ReplaceLevel == "parent" {
		files["root.go"] = "// Package m is the module's root package.\npackage m\n\ntype Unmocked struct{ N int }\n"
	}
	files["dump.templ"] = dataProbe
	files["reemit.templ"] = reemitProbe
	files["mocks/doc.go"] = "package mocks\n"
	if in.DecoyReplace != nil {
		_, df := decoyPackages(nil)
		for k, v := range df {
			files[k] = v
		}
	}
	if err := writeFiles(dir, files); err != nil {
		return Case{Oracle: fail("harness", "%v", err)}
	}
	tags := []string{"place-" + in.Placement}
	if in.Stream != "" {
		tags = append(tags, "stream-"+in.Stream)
	}
	// the generated source must be valid Go before anything is concluded
	if out, err := runGo(dir, "build", "./..."); err != nil {
		return Case{Oracle: fail("harness-source", "generated source does not compile: %s", lastLines(out, 6)), NoModel: true, Tags: tags}
	}
	// ---- dump ---------------------------------------------------------------------------
	os.WriteFile(filepath.Join(dir, ".mockery.yml"), []byte(dataConfig(&in, dir, "dump.templ", "zz_dump.txt", "noop")), 0o644)
	res := c.runMockery(dir, nil, nil)
	if res.Panicked {
		return Case{Impl: map[string]any{"panic": true}, Oracle: fail("panic", "mockery panicked: %s", lastLines(res.Stderr, 6)), Tags: tags}
	}
	if res.Exit != 0 {
		return Case{Impl: map[string]any{"exit": 1}, Oracle: fail("generate-failed", "mockery failed on valid input: %s", lastLines(res.Stderr, 4)), Tags: tags}
	}
	dumpPath := filepath.Join(dir, "src", "zz_dump.txt")
	if in.Placement == "separate" {
		dumpPath = filepath.Join(dir, "mocks", "zz_dump.txt")
	}
	db, err := os.ReadFile(dumpPath)
	if err != nil {
		return Case{Impl: map[string]any{"nodump": true}, Oracle: fail("generate-failed", "no dump written: %v", err), Tags: tags}
	}
	os.Remove(dumpPath)
	impl := parseDump(string(db))
	// ---- re-emission judged by the toolchain -----------------------------------------------
	or := Oracle{OK: true}
	fn := "zz_reemit_test.go"
	if in.Placement == "separate" {
		fn = "zz_reemit.go"
	}
	os.WriteFile(filepath.Join(dir, ".mockery.yml"), []byte(dataConfig(&in, dir, "reemit.templ", fn, "gofmt")), 0o644)
	res2 := c.runMockery(dir, nil, nil)
	finding := ""
	if res2.Exit != 0 {
		or = fail("reemit-failed", "re-emitting the interfaces from the data model failed: %s", formatErrLine(res2)+" "+lastLines(res2.Stderr, 1))
	} else if out, err := runGo(dir, "test", "-count=1", "-run", "^$", "./..."); err != nil {
		or = fail("reemit-does-not-compile", "the interfaces re-emitted from the data model do not denote the source signatures: %s", lastLines(out, 6))
	}
	if !or.OK && in.Stream != "" {
		or.Class = in.Stream
		finding = map[string]string{"capture": "C14-K1", "lowercase-typeparam": "C14-K2"}[in.Stream]
	}
	if p.prop == "C13" {
		c13Baseline = nil
		base := in
		base.Replace, base.ReplaceLevel, base.DecoyReplace = nil, "", nil
		os.WriteFile(filepath.Join(dir, ".mockery.yml"), []byte(dataConfig(&base, dir, "dump.templ", "zz_dump.txt", "noop")), 0o644)
		rb := c.runMockery(dir, nil, nil)
		var baseImpl map[string]any
		if rb.Exit == 0 {
			if bb, err := os.ReadFile(dumpPath); err == nil {
				baseImpl = parseDump(string(bb))
			}
		}
		o2 := Oracle{OK: true}
		if baseImpl == nil {
			o2 = fail("harness", "baseline run without replace-type failed: %s", lastLines(rb.Stderr, 3))
		} else {
			c13Baseline = func(*DataInput) (map[string]any, error) { return baseImpl, nil }
			o2 = c13Oracle(&in, impl)
		}
		// the re-emitted interface is deliberately different from the source when types are replaced; what C13 asks is
		// that mockery's own output with the setting still compiles: a built-in template, same configuration
		or = Oracle{OK: true}
		if !o2.OK && or.OK {
			or = o2
		}
		if or.OK && in.Stream == "" {
			filepath.WalkDir(dir, func(p string, d os.DirEntry, err error) error {
				if err == nil && !d.IsDir() && d.Name() == fn {
					os.Remove(p) // what the re-emission probe wrote
				}
				return nil
			})
			// (matryer's ensure lines assert assignability to the source interface, which replaced types break by design)
			tmpl := "testify"
			os.WriteFile(filepath.Join(dir, ".mockery.yml"), []byte(dataConfig(&in, dir, tmpl, fn, "gofmt")), 0o644)
			rc := c.runMockery(dir, nil, nil)
			if rc.Exit != 0 {
				or = fail("does-not-compile", "mockery (%s) failed with the replace-type setting: %s %s", tmpl, formatErrLine(rc), lastLines(rc.Stderr, 1))
			} else if out, err := runGo(dir, "test", "-count=1", "-run", "^$", "./..."); err != nil {
				or = fail("does-not-compile", "the %s mock generated with the replace-type setting does not compile: %s", tmpl, lastLines(strings.ReplaceAll(out, dir, ""), 5))
			}
		}
	}
	nontrivial := false
	for _, it := range in.Ifaces {
		if len(it.TypeParams) > 0 {
			nontrivial = true
		}
		for _, m := range it.Methods {
			for _, v := range append(append([]VarJ{}, m.Params...), m.Results...) {
				if v.Type.K != "basic" && v.Type.K != "universe" {
					nontrivial = true
				}
			}
		}
	}
	return Case{Impl: impl, Oracle: or, Nontrivial: nontrivial, Tags: tags, Finding: finding}
}
