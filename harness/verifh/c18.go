//go:build verif && !noc18

package main

import (
	"sync"
	"context"
	"encoding/json"
	"fmt"
	"os"
	"path/filepath"
	"sort"
	"strings"

	"github.com/rs/zerolog"
	"github.com/spf13/pflag"
	"github.com/vektra/mockery/v3/config"
)

// C18: `mockery init` on every initial state of the target path, several target
// paths and package-path strings; the written file is loaded back by mockery's own
// loader, and for a real package a plain run must mock all its interfaces.

type c18Input struct {
	State   string `json:"state"`   // absent | empty | content | dir | noparent | same | symlink-dangling | symlink-file
	// several init processes started together on the same (absent) target: exactly one may win
	Parallel int `json:"parallel,omitempty"`
	// MOCKERY_* variables exported in the shell init runs in: they configure a run, the file states the defaults
	Env [][2]string `json:"env,omitempty"`
	// a directory above the module holds a configuration file of the *other* spelling (.mockery.yaml) that
	// configures nothing of this module: the file init writes in the working directory is the nearest one
	Ancestor bool `json:"ancestor,omitempty"`
	Content string `json:"content"` // for state == content
	Target  string `json:"target"`  // "" = default .mockery.yml, else --config value (relative to the module)
	Pkg     string `json:"pkg"`
	Follow  bool   `json:"follow"` // run a plain mockery afterwards (pkg must be example.com/m/foo)
}

type c18 struct{}

func init() { register("C18", c18{}) }

var c18Pkgs = []string{"example.com/m/foo", "github.com/vektra/mockery/v3/internal/fixtures", "a: b", "#x", "{x}", "yes", "~", "with space", "quote\"d", "tab\there",
	"multi\nline", "é/ü", "x|y", "example.com/m/foo|bar", "null", "123", "- dash", "*a", "&a", "!t", "%p", "@a", "`b`", "trailing ", " leading", "a.b/c-d_e", "[x]", "'s'", "\\back", "true", "1e3", "k: {v: 1}"}
var c18Contents = []string{"all: true\n", "# just a comment\n", " ", "\n", "garbage: [", "packages: {}\n", "x"}

func (c18) Generate(c *Ctx) []any {
	var out []any
	// exhaustive: initial state × target
	for _, st := range []string{"absent", "empty", "content", "same", "dir", "noparent"} {
		for _, tg := range []string{"", "custom.yml", "sub/cfg.yaml"} {
			in := c18Input{State: st, Target: tg, Pkg: "example.com/m/foo", Content: "all: true\n", Follow: st == "absent"}
			if st == "noparent" {
				in.Target = "missing-dir/" + pick(c.Rng, []string{"a.yml", ".mockery.yml"})
			}
			out = append(out, in)
		}
	}
	for _, st := range []string{"symlink-dangling", "symlink-file"} {
		for _, tg := range []string{"", "custom.yml"} {
			out = append(out, c18Input{State: st, Target: tg, Pkg: "example.com/m/foo"})
		}
	}
	for k := 0; k < c.Budget(3, 12); k++ {
		out = append(out, c18Input{State: "absent", Target: pick(c.Rng, []string{"", "custom.yml"}), Pkg: "example.com/m/foo", Parallel: 4 + c.Rng.Intn(5)})
	}
	for k := 0; k < c.Budget(3, 8); k++ {
		out = append(out, c18Input{State: "absent", Target: "", Pkg: "example.com/m/foo", Follow: true, Ancestor: true})
	}
	for k := 0; k < c.Budget(4, 16); k++ {
		in := c18Input{State: "absent", Target: pick(c.Rng, []string{"", "custom.yml"}), Pkg: "example.com/m/foo", Follow: true}
		all := [][2]string{{"MOCKERY_LOG_LEVEL", "debug"}, {"MOCKERY_FORCE_FILE_WRITE", "true"}, {"MOCKERY_FORMATTER", "noop"}, {"MOCKERY_ALL", "true"},
			{"MOCKERY_FILENAME", "env_mocks.go"}, {"MOCKERY_TEMPLATE", "matryer"}, {"MOCKERY_RECURSIVE", "true"}, {"MOCKERY_PKGNAME", "envpkg"}}
		in.Env = append(in.Env, all[k%len(all)])
		if c.Rng.Intn(2) == 0 {
			in.Env = append(in.Env, all[(k+3)%len(all)])
		}
		out = append(out, in)
	}
	for _, p := range c18Pkgs {
		out = append(out, c18Input{State: "absent", Target: "", Pkg: p})
	}
	n := c.Budget(40, 600)
	for i := 0; i < n; i++ {
		in := c18Input{State: pick(c.Rng, []string{"absent", "absent", "empty", "content", "same", "dir"}), Target: pick(c.Rng, []string{"", "custom.yml", "sub/cfg.yaml", ".mockery.yaml"}),
			Pkg: pick(c.Rng, c18Pkgs), Content: pick(c.Rng, c18Contents)}
		if c.Rng.Intn(3) == 0 {
			in.Pkg = pick(c.Rng, c18Pkgs) + pick(c.Rng, []string{"/", ":", " #", "|"}) + pick(c.Rng, c18Pkgs)
		}
		out = append(out, in)
	}
	return out
}

var c18Defaults = map[string]any{
	"all": false, "dir": "{{.InterfaceDir}}", "filename": "mocks_test.go", "force-file-write": false, "formatter": "goimports", "log-level": "info",
	"structname": "{{.Mock}}{{.InterfaceName}}", "pkgname": "{{.SrcPackageName}}", "recursive": false, "require-template-schema-exists": true,
	"template": "testify", "template-schema": "{{.Template}}.schema.json",
}

func (c18) Run(c *Ctx, raw json.RawMessage) Case {
	var in c18Input
	if err := json.Unmarshal(raw, &in); err != nil {
		return Case{Oracle: fail("bad-input", "%v", err)}
	}
	dir, err := os.MkdirTemp(c.Work, "c18-")
	if err != nil {
		return Case{Oracle: fail("harness", "%v", err)}
	}
	defer os.RemoveAll(dir)
	if in.Ancestor {
		// <dir>/ws/.mockery.yaml (a workspace-level file for something else), the module in <dir>/ws/mod
		ws := filepath.Join(dir, "ws")
		os.MkdirAll(filepath.Join(ws, "mod"), 0o755)
		os.WriteFile(filepath.Join(ws, ".mockery.yaml"), []byte("all: false\npackages:\n  example.com/elsewhere/legacy:\n"), 0o644)
		dir = filepath.Join(ws, "mod")
	}
	files := map[string]string{"go.mod": goModText, "foo/foo.go": "package foo\n\ntype Reader interface{ Read(p []byte) (int, error) }\n\ntype writer interface{ Write(p []byte) (int, error) }\n\ntype S struct{}\n",
		"sub/keep.txt": "keep\n"}
	writeFiles(dir, files)
	target := in.Target
	if target == "" {
		target = ".mockery.yml"
	}
	tpath := filepath.Join(dir, target)
	switch in.State {
	case "empty":
		os.MkdirAll(filepath.Dir(tpath), 0o755)
		os.WriteFile(tpath, nil, 0o644)
	case "content":
		os.MkdirAll(filepath.Dir(tpath), 0o755)
		os.WriteFile(tpath, []byte(in.Content), 0o644)
	case "dir":
		os.MkdirAll(tpath, 0o755)
	case "symlink-dangling":
		// the path is taken by a link whose target does not exist (yet): creating "through" it is not creating the file
		os.MkdirAll(filepath.Dir(tpath), 0o755)
		os.Symlink(filepath.Join(dir, "shared", "mockery.yml"), tpath)
	case "symlink-file":
		os.MkdirAll(filepath.Dir(tpath), 0o755)
		os.Symlink(filepath.Join(dir, "sub", "keep.txt"), tpath)
	case "same":
		// the target already holds exactly what init would write for this package
		scratch, _ := os.MkdirTemp(c.Work, "c18s-")
		writeFiles(scratch, files)
		a0 := []string{"init"}
		if in.Target != "" {
			os.MkdirAll(filepath.Dir(filepath.Join(scratch, target)), 0o755)
			a0 = append(a0, "--config", in.Target)
		}
		c.runMockery(scratch, append(a0, "--", in.Pkg), nil)
		b, err := os.ReadFile(filepath.Join(scratch, target))
		os.RemoveAll(scratch)
		if err != nil {
			b = []byte("packages: {}\n")
		}
		os.MkdirAll(filepath.Dir(tpath), 0o755)
		os.WriteFile(tpath, b, 0o644)
	}
	before := treeHashes(dir)
	args := []string{"init"}
	if in.Target != "" {
		args = append(args, "--config", in.Target)
	}
	args = append(args, "--", in.Pkg) // "--": the package path may start with a dash
	var res RunResult
	winners := 1
	if in.Parallel > 1 {
		results := make([]RunResult, in.Parallel)
		var wg sync.WaitGroup
		for k := range results {
			wg.Add(1)
			go func(k int) {
				defer wg.Done()
				results[k] = c.runMockery(dir, args, envOf(in.Env))
			}(k)
		}
		wg.Wait()
		winners = 0
		res = results[0]
		for _, r := range results {
			if r.Panicked {
				res = r
			}
			if r.Exit == 0 {
				winners++
				if !res.Panicked {
					res = r
				}
			}
		}
	} else {
		res = c.runMockery(dir, args, envOf(in.Env))
	}
	after := treeHashes(dir)
	tags := []string{"state-" + in.State}
	if in.Parallel > 1 {
		tags = append(tags, "parallel")
	}
	if len(in.Env) > 0 {
		tags = append(tags, "env-set")
	}
	if in.Ancestor {
		tags = append(tags, "ancestor-config")
	}
	if res.Panicked {
		return Case{Impl: map[string]any{"panic": true}, Oracle: fail("panic", "init panicked: %s", lastLines(res.Stderr, 5)), Tags: tags}
	}
	or := Oracle{OK: true}
	note := func(class, f string, a ...any) {
		if or.OK {
			or = fail(class, f, a...)
		}
	}
	exit := 0
	if res.Exit != 0 {
		exit = 1
	}
	if in.Parallel > 1 && winners != 1 {
		note("exclusive-create", "%d init processes were started together on a free target path: %d of them report success (each believes it created the file)", in.Parallel, winners)
	}
	// nothing but the target may change
	changed := []string{}
	for p, h := range after {
		if before[p] != h {
			changed = append(changed, p)
		}
	}
	for p := range before {
		if _, ok := after[p]; !ok {
			changed = append(changed, p+" (removed)")
		}
	}
	sort.Strings(changed)
	written := false
	for _, p := range changed {
		if p == filepath.ToSlash(filepath.Clean(target)) {
			written = true
		} else {
			note("stray-write", "init changed %s (target is %s)", p, target)
		}
	}
	impl := map[string]any{"exit": exit, "after": "unchanged"}
	if written {
		impl["after"] = "written"
	}
	if in.State != "absent" {
		if written {
			note("clobbered", "an existing %s at the target was modified", in.State)
		}
		if exit == 0 {
			note("exit-status", "init reported success although the target already existed (%s)", in.State)
		}
		nm := in.State == "noparent"
		return Case{Impl: impl, Oracle: or, Nontrivial: true, Tags: tags, NoModel: nm}
	}
	if exit != 0 || !written {
		note("not-written", "target absent but init failed / wrote nothing: %s", lastLines(res.Stderr, 3))
		return Case{Impl: impl, Oracle: or, Tags: tags}
	}
	// ---- round trip through mockery's own loader -------------------------------------------
	cfgEnvMu.Lock()
	clearMockeryEnv()
	flags := pflag.NewFlagSet("mockery", pflag.ContinueOnError)
	flags.String("config", "", "")
	flags.String("log-level", "", "")
	flags.Parse([]string{"--config", tpath})
	var rc *config.RootConfig
	var lerr error
	lp := ""
	func() {
		defer func() {
			if r := recover(); r != nil {
				lp = fmt.Sprint(r)
			}
		}()
		rc, _, lerr = config.NewRootConfig(zerolog.Nop().WithContext(context.Background()), flags)
	}()
	cfgEnvMu.Unlock()
	if lp != "" {
		note("reload-panic", "mockery panics loading the file init wrote: %s", lp)
		return Case{Impl: impl, Oracle: or, Tags: tags}
	}
	if lerr != nil {
		note("reload", "mockery rejects the file init wrote for package %q: %v", in.Pkg, lerr)
		return Case{Impl: impl, Oracle: or, Tags: tags}
	}
	pk := []any{}
	names := sortedKeys(rc.Packages)
	for _, n := range names {
		p := rc.Packages[n]
		all := false
		if p != nil && p.Config != nil && p.Config.All != nil {
			all = *p.Config.All
		}
		ni := 0
		if p != nil {
			ni = len(p.Interfaces)
		}
		pk = append(pk, map[string]any{"path": n, "all": all, "interfaces": ni})
	}
	impl["packages"] = pk
	rj := cfgJSON(&rc.Config, tpath)
	root := map[string]any{}
	for k := range c18Defaults {
		root[k] = rj[k]
	}
	impl["root"] = root
	if len(names) != 1 || names[0] != in.Pkg {
		note("roundtrip", "package path %q loads back as %q", in.Pkg, names)
	} else if p := rc.Packages[in.Pkg]; p == nil || p.Config == nil || p.Config.All == nil || !*p.Config.All {
		note("roundtrip", "package %q does not load back with all: true", in.Pkg)
	}
	for k, v := range c18Defaults {
		if !jsonEq(rj[k], v) {
			note("defaults", "written file states %s = %v, the documented default is %v", k, rj[k], v)
		}
	}
	// ---- a plain run mocks all interfaces of the package ------------------------------------------
	if in.Follow && in.Pkg == "example.com/m/foo" {
		runArgs := []string{}
		if in.Target != "" {
			runArgs = []string{"--config", in.Target}
		}
		r2 := c.runMockery(dir, runArgs, nil)
		if r2.Exit != 0 {
			note("followup", "plain mockery run with the written file failed: %s", lastLines(r2.Stderr, 3))
		} else {
			b, _ := os.ReadFile(filepath.Join(dir, "foo", "mocks_test.go"))
			for _, want := range []string{"type MockReader struct", "type mockwriter struct"} {
				if !strings.Contains(string(b), want) {
					note("followup", "plain run did not generate %q", want)
				}
			}
		}
		tags = append(tags, "followup")
	}
	return Case{Impl: impl, Oracle: or, Nontrivial: true, Tags: tags}
}

func envOf(kv [][2]string) []string {
	var out []string
	for _, e := range kv {
		out = append(out, e[0]+"="+e[1])
	}
	return out
}
