//go:build verif

package main

import (
	"encoding/json"
	"fmt"
	"os"
	"strings"
)

// C04 (H-behav, matryer): a generated Go driver runs a sequence of calls, Calls() reads, resets,
// kept snapshots and Func toggles against a freshly generated matryer mock; what the user-supplied
// functions saw, what the calls returned or panicked with, and the records are printed as tokens
// and compared with the Lean model (Sem/Matryer.lean, regenerated bodies) and with an oracle that
// implements the property's sentence directly.

type C04Op struct {
	Op      string `json:"op"` // call | calls | reset | resetAll | keep | inspect | setfunc
	M       int    `json:"m"`
	Args    []int  `json:"args,omitempty"`    // value indexes of the ordinary parameters
	VarArg  int    `json:"vararg"`            // value index in the variadic slice type's table; -1: no variadic argument written
	Results []int  `json:"results,omitempty"` // what <M>Func returns for this call
	Slot    int    `json:"slot"`
	On      bool   `json:"on"`
	Reenter bool   `json:"reenter"` // the user function reads <M>Calls() of its own method while it runs
}

type c04Input struct {
	StubImpl   bool      `json:"stubImpl"`
	WithResets bool      `json:"withResets"`
	SkipEnsure bool      `json:"skipEnsure"`
	StubLevel  string    `json:"stubLevel"`  // top | package | interface | unset (written nowhere: the default, false) | parent (a recursive package above)
	ResetLevel string    `json:"resetLevel"` // top | package | interface | unset
	// an unrelated recursive package with a listed sub-package sets the opposite of every option
	Decoy bool `json:"decoy,omitempty"`
	// two more interfaces of the same package, mocked into the same output file before (Alpha) and after (Zeta) the
	// interface under test, whose own interface-level options say the opposite: options are per mock, not per file
	Siblings bool `json:"siblings,omitempty"`
	Methods    []BMethod `json:"methods"`
	FuncOn     []bool    `json:"funcOn"` // initial state of every <M>Func
	Ops        []C04Op   `json:"ops"`
	// the interface is generic (`Store[T any]`, T stands where Named is used) and the driver instantiates it
	Generic bool `json:"generic"`
}

type c04 struct{}

func init() { register("C04", c04{}) }

func (c04) Generate(c *Ctx) []any {
	var out []any
	n := c.Budget(40, 400)
	for i := 0; i < n; i++ {
		r := c.Rng
		in := c04Input{StubImpl: i%2 == 1, WithResets: (i/2)%2 == 1, SkipEnsure: r.Intn(3) == 0,
			StubLevel: pick(r, []string{"top", "package", "interface"}), ResetLevel: pick(r, []string{"top", "package", "interface"})}
		if i%5 == 3 {
			// the package under test is a listed sub-package of a recursive package that sets the options
			in.StubLevel, in.ResetLevel = "parent", "parent"
		}
		if !in.StubImpl && r.Intn(2) == 0 && in.StubLevel != "parent" {
			in.StubLevel = "unset"
		}
		if !in.WithResets && r.Intn(2) == 0 && in.ResetLevel != "parent" {
			in.ResetLevel = "unset"
		}
		in.Decoy = i%3 != 2
		in.Siblings = (i/4)%2 == 0
		nm := 1 + r.Intn(3)
		in.Generic = r.Intn(4) == 0
		bNames := bNamesFor(r, i)
		for k := 0; k < nm; k++ {
			in.Methods = append(in.Methods, genBMethod(r, bNames[k]))
			in.FuncOn = append(in.FuncOn, r.Intn(5) != 0)
		}
		nops := 6 + r.Intn(c.Budget(14, 40))
		kept := map[int]int{} // slot -> method
		for k := 0; k < nops; k++ {
			mi := r.Intn(nm)
			m := in.Methods[mi]
			x := r.Intn(100)
			switch {
			case x < 55:
				op := C04Op{Op: "call", M: mi, Args: genVals(r, m.Params), VarArg: -1, Results: genVals(r, m.Results)}
				if m.Variadic >= 0 && r.Intn(4) != 0 {
					op.VarArg = r.Intn(len(bTypes[m.Variadic].Vals))
				}
				op.Reenter = r.Intn(4) == 0
				in.Ops = append(in.Ops, op)
			case x < 70:
				in.Ops = append(in.Ops, C04Op{Op: "calls", M: mi, VarArg: -1})
			case x < 78:
				in.Ops = append(in.Ops, C04Op{Op: "setfunc", M: mi, On: r.Intn(2) == 0, VarArg: -1})
			case x < 88 && in.WithResets:
				if r.Intn(2) == 0 {
					in.Ops = append(in.Ops, C04Op{Op: "reset", M: mi, VarArg: -1})
				} else {
					in.Ops = append(in.Ops, C04Op{Op: "resetAll", VarArg: -1})
				}
			case x < 94:
				slot := len(kept)
				kept[slot] = mi
				in.Ops = append(in.Ops, C04Op{Op: "keep", M: mi, Slot: slot, VarArg: -1})
			default:
				if len(kept) > 0 {
					slot := r.Intn(len(kept))
					in.Ops = append(in.Ops, C04Op{Op: "inspect", M: kept[slot], Slot: slot, VarArg: -1})
				} else {
					in.Ops = append(in.Ops, C04Op{Op: "calls", M: mi, VarArg: -1})
				}
			}
		}
		out = append(out, in)
	}
	return out
}

func c04Config(in *c04Input) string {
	var b strings.Builder
	b.WriteString("template: matryer\nformatter: gofmt\nforce-file-write: true\nfilename: mocks_test.go\n")
	td := func(indent string, level string) {
		var ls []string
		if in.StubLevel == level {
			ls = append(ls, fmt.Sprintf("stub-impl: %v", in.StubImpl))
		}
		if in.ResetLevel == level {
			ls = append(ls, fmt.Sprintf("with-resets: %v", in.WithResets))
		}
		if level == "top" && in.SkipEnsure {
			ls = append(ls, "skip-ensure: true")
		}
		if len(ls) > 0 {
			b.WriteString(indent + "template-data:\n")
			for _, l := range ls {
				b.WriteString(indent + "  " + l + "\n")
			}
		}
	}
	td("", "top")
	b.WriteString("packages:\n")
	if in.StubLevel == "parent" || in.ResetLevel == "parent" {
		// the module's root package: recursive, nothing of its own is mocked
		b.WriteString("  example.com/m:\n    config:\n      recursive: true\n")
		td("      ", "parent")
	}
	b.WriteString("  example.com/m/store:\n")
	if in.StubLevel == "package" || in.ResetLevel == "package" {
		b.WriteString("    config:\n")
		td("      ", "package")
	}
	b.WriteString("    interfaces:\n      Store:\n")
	if in.StubLevel == "interface" || in.ResetLevel == "interface" {
		b.WriteString("        config:\n")
		td("          ", "interface")
	}
	if in.Siblings {
		for _, n := range []string{"Alpha", "Zeta"} {
			fmt.Fprintf(&b, "      %s:\n        config:\n          template-data:\n            stub-impl: %v\n            with-resets: %v\n", n, !in.StubImpl, !in.WithResets)
		}
	}
	if in.Decoy {
		y, _ := decoyPackages(c04DecoyLines(in))
		b.WriteString(y)
	}
	return b.String()
}

// the decoy says the opposite of every option of the scenario
func c04DecoyLines(in *c04Input) []string {
	return []string{fmt.Sprintf("stub-impl: %v", !in.StubImpl), fmt.Sprintf("with-resets: %v", !in.WithResets), fmt.Sprintf("skip-ensure: %v", !in.SkipEnsure)}
}

func typesLit(ts []int) string {
	s := []string{}
	for _, t := range ts {
		s = append(s, fmt.Sprint(t))
	}
	return "[]int{" + strings.Join(s, ", ") + "}"
}

func c04Driver(in *c04Input) string {
	var b strings.Builder
	b.WriteString(behavPrelude(nil))
	b.WriteString(`
// fmtRecs prints a list of call records: one [tokens] group per record, fields in declaration order
func fmtRecs(types []int, v any) string {
	rv := reflect.ValueOf(v)
	out := []string{}
	for i := 0; i < rv.Len(); i++ {
		r := rv.Index(i)
		if r.NumField() != len(types) {
			out = append(out, fmt.Sprintf("[%d fields]", r.NumField()))
			continue
		}
		fs := []string{}
		for k := 0; k < r.NumField(); k++ {
			fs = append(fs, tok(types[k], r.Field(k).Interface()))
		}
		out = append(out, "["+strings.Join(fs, " ")+"]")
	}
	return strings.Join(out, " ")
}

var next = map[string][]int{}
var reenter bool

func TestDriver(t *testing.T) {
	mock := &MockStoreINST{}
`)
	for mi, m := range in.Methods {
		// the user's function: reports what it sees, returns what the scenario says
		var ps, toks, rets []string
		for i, t := range m.Params {
			ps = append(ps, fmt.Sprintf("%s %s", m.paramName(i), bTypes[t].Go))
			toks = append(toks, fmt.Sprintf("tok(%d, %s)", t, m.paramName(i)))
		}
		if m.Variadic >= 0 {
			ps = append(ps, fmt.Sprintf("rest ...%s", bTypes[bTypes[m.Variadic].SliceOf].Go))
			toks = append(toks, fmt.Sprintf("tok(%d, rest)", m.Variadic))
		}
		var rts []string
		for i, t := range m.Results {
			rts = append(rts, bTypes[t].Go)
			rets = append(rets, fmt.Sprintf("as[%s](table[%d][next[%q][%d]])", bTypes[t].Go, t, m.Name, i))
		}
		rsig := ""
		if len(rts) == 1 {
			rsig = " " + rts[0]
		} else if len(rts) > 1 {
			rsig = " (" + strings.Join(rts, ", ") + ")"
		}
		fmt.Fprintf(&b, "\tset%s := func(on bool) {\n\t\tif !on {\n\t\t\tmock.%sFunc = nil\n\t\t\treturn\n\t\t}\n\t\tmock.%sFunc = func(%s)%s {\n\t\t\tev(%s)\n\t\t\tif reenter {\n\t\t\t\tev(\"reentered\", fmt.Sprint(len(mock.%sCalls())))\n\t\t\t}\n",
			m.Name, m.Name, m.Name, strings.Join(ps, ", "), rsig, strings.Join(append([]string{`"saw"`, fmt.Sprintf("%q", m.Name)}, toks...), ", "), m.Name)
		if len(rets) > 0 {
			fmt.Fprintf(&b, "\t\t\treturn %s\n", strings.Join(rets, ", "))
		}
		b.WriteString("\t\t}\n\t}\n")
		fmt.Fprintf(&b, "\tset%s(%v)\n", m.Name, in.FuncOn[mi])
	}
	for k, op := range in.Ops {
		m := BMethod{}
		if op.Op != "resetAll" {
			m = in.Methods[op.M]
		}
		fmt.Fprintf(&b, "\t// op %d: %s\n", k, op.Op)
		switch op.Op {
		case "call":
			var args []string
			for i, t := range m.Params {
				args = append(args, valExpr(t, op.Args[i]))
			}
			if m.Variadic >= 0 && op.VarArg >= 0 {
				args = append(args, valExpr(m.Variadic, op.VarArg)+"...")
			}
			fmt.Fprintf(&b, "\tnext[%q] = %s\n\treenter = %v\n", m.Name, typesLit(op.Results), op.Reenter)
			call := fmt.Sprintf("mock.%s(%s)", m.Name, strings.Join(args, ", "))
			if len(m.Results) == 0 {
				fmt.Fprintf(&b, "\tguarded(func() {\n\t\t%s\n\t\tev(\"returned\")\n\t})\n", call)
			} else {
				var rs, toks []string
				for i, t := range m.Results {
					rs = append(rs, fmt.Sprintf("r%d", i))
					toks = append(toks, fmt.Sprintf("tok(%d, r%d)", t, i))
				}
				fmt.Fprintf(&b, "\tguarded(func() {\n\t\t%s := %s\n\t\tev(%s)\n\t})\n", strings.Join(rs, ", "), call, strings.Join(append([]string{`"returned"`}, toks...), ", "))
			}
		case "calls":
			fmt.Fprintf(&b, "\tev(\"records\", %q, fmtRecs(%s, mock.%sCalls()))\n", m.Name, typesLit(m.allParams()), m.Name)
		case "reset":
			fmt.Fprintf(&b, "\tmock.Reset%sCalls()\n", m.Name)
		case "resetAll":
			b.WriteString("\tmock.ResetCalls()\n")
		case "keep":
			fmt.Fprintf(&b, "\tkept%d := mock.%sCalls()\n\t_ = kept%d\n", op.Slot, m.Name, op.Slot)
		case "inspect":
			fmt.Fprintf(&b, "\tev(\"kept\", %q, fmtRecs(%s, kept%d))\n", m.Name, typesLit(m.allParams()), op.Slot)
		case "setfunc":
			fmt.Fprintf(&b, "\tset%s(%v)\n", m.Name, op.On)
		}
		fmt.Fprintf(&b, "\tflush(t, %d)\n", k)
	}
	b.WriteString("}\n")
	return b.String()
}

func recTokens(m BMethod, op C04Op) string {
	var fs []string
	for i, t := range m.Params {
		fs = append(fs, tokenOf(t, op.Args[i]))
	}
	if m.Variadic >= 0 {
		v := op.VarArg
		if v < 0 {
			v = 0 // no variadic argument written: the parameter is a nil slice
		}
		fs = append(fs, tokenOf(m.Variadic, v))
	}
	return strings.Join(fs, " ")
}

// the property's sentence, executed on the operation list
func c04Expected(in *c04Input) [][]string {
	on := append([]bool{}, in.FuncOn...)
	recs := make([][]string, len(in.Methods))
	kept := map[int][]string{}
	var out [][]string
	for _, op := range in.Ops {
		evs := []string{}
		switch op.Op {
		case "call":
			m := in.Methods[op.M]
			args := recTokens(m, op)
			switch {
			case on[op.M]:
				saw := "saw " + m.Name
				if args != "" {
					saw += " " + args
				}
				evs = append(evs, saw)
				if op.Reenter {
					// the call is already recorded when the function runs
					evs = append(evs, fmt.Sprintf("reentered %d", len(recs[op.M])+1))
				}
				ret := "returned"
				for i, t := range m.Results {
					ret += " " + tokenOf(t, op.Results[i])
				}
				evs = append(evs, ret)
				recs[op.M] = append(recs[op.M], "["+args+"]")
			case in.StubImpl:
				ret := "returned"
				for _, t := range m.Results {
					ret += " " + tokenOf(t, 0)
				}
				evs = append(evs, ret)
				recs[op.M] = append(recs[op.M], "["+args+"]")
			default:
				evs = append(evs, fmt.Sprintf("panic MockStore.%sFunc: method is nil but Store.%s was just called", m.Name, m.Name))
			}
		case "calls":
			evs = append(evs, strings.TrimSpace("records "+in.Methods[op.M].Name+" "+strings.Join(recs[op.M], " ")))
		case "reset":
			recs[op.M] = nil
		case "resetAll":
			for i := range recs {
				recs[i] = nil
			}
		case "keep":
			kept[op.Slot] = append([]string{}, recs[op.M]...)
		case "inspect":
			evs = append(evs, strings.TrimSpace("kept "+in.Methods[op.M].Name+" "+strings.Join(kept[op.Slot], " ")))
		case "setfunc":
			on[op.M] = op.On
		}
		out = append(out, evs)
	}
	return out
}

func (c04) Run(c *Ctx, raw json.RawMessage) Case {
	var in c04Input
	if err := json.Unmarshal(raw, &in); err != nil {
		return Case{Oracle: fail("bad-input", "%v", err)}
	}
	dir, err := os.MkdirTemp(c.Work, "c04-")
	if err != nil {
		return Case{Oracle: fail("harness", "%v", err)}
	}
	defer os.RemoveAll(dir)
	tags := []string{fmt.Sprintf("stub-%v", in.StubImpl), fmt.Sprintf("resets-%v", in.WithResets), "stub-at-" + in.StubLevel, "resets-at-" + in.ResetLevel}
	if in.Siblings {
		tags = append(tags, "siblings-opposite")
	}
	inst := ""
	if in.Generic {
		inst = "[Named]"
	}
	out, err := c.behavModuleG(dir, in.Methods, in.Generic, c04Config(&in), strings.ReplaceAll(c04Driver(&in), "MockStoreINST", "MockStore"+inst))
	if err != nil {
		return Case{Impl: map[string]any{"error": true}, Oracle: fail("does-not-run", "%v", err), Tags: tags}
	}
	trace := parseTrace(out, len(in.Ops))
	for i := range trace {
		for j := range trace[i] {
			trace[i][j] = strings.TrimSpace(trace[i][j])
		}
	}
	impl := map[string]any{"trace": trace}
	want := c04Expected(&in)
	or := Oracle{OK: true}
	for i := range want {
		if strings.Join(want[i], " | ") != strings.Join(trace[i], " | ") {
			or = fail("behaviour", "operation %d (%s): observed %q, the property requires %q", i, in.Ops[i].Op, trace[i], want[i])
			break
		}
	}
	ncalls := 0
	for _, op := range in.Ops {
		if op.Op == "call" {
			ncalls++
		}
	}
	return Case{Impl: impl, Oracle: or, Nontrivial: ncalls >= 2, Tags: tags}
}
