//go:build verif

// Command verifsem answers, for each version string on stdin (one per line, hex-free plain text),
// what Masterminds/semver's NewVersion makes of it – the parser the release tagger uses.
// It is built inside the snapshot's tools module (the only module that depends on semver).
package main

import (
	"bufio"
	"encoding/json"
	"os"
	"strconv"
	"strings"

	"github.com/Masterminds/semver/v3"
)

type out struct {
	S     string `json:"s"`
	OK    bool   `json:"ok"`
	Major uint64 `json:"major"`
	Minor uint64 `json:"minor"`
	Patch uint64 `json:"patch"`
	// prerelease identifiers: numbers as {"n": 1}, others as {"a": "beta"}
	Pre    []map[string]any `json:"pre"`
	String string           `json:"string"` // v.String()
}

func main() {
	sc := bufio.NewScanner(os.Stdin)
	enc := json.NewEncoder(os.Stdout)
	for sc.Scan() {
		s := sc.Text()
		o := out{S: s, Pre: []map[string]any{}}
		v, err := semver.NewVersion(s)
		if err == nil {
			o.OK = true
			o.Major, o.Minor, o.Patch = v.Major(), v.Minor(), v.Patch()
			o.String = v.String()
			if p := v.Prerelease(); p != "" {
				for _, id := range strings.Split(p, ".") {
					if n, err := strconv.ParseUint(id, 10, 64); err == nil {
						o.Pre = append(o.Pre, map[string]any{"n": n})
					} else {
						o.Pre = append(o.Pre, map[string]any{"a": id})
					}
				}
			}
		}
		enc.Encode(o)
	}
}
