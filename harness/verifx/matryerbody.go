//go:build verif

package main

import (
	"fmt"
	"os"
	"path/filepath"
	"regexp"
	"strings"
)

// The body of the method the matryer template emits for every mocked method, translated line by
// line into statements of the Lean method language (MockeryModel/Sem/Matryer.lean): each statement
// carries the template conditions it is emitted under (stub-impl / not stub-impl, method with /
// without results) and whether it sits inside the Go-level `if mock.<M>Func == nil` block.
// Lines that are not understood are emitted as statements of kind "unknown", which no expectation
// matches. Also translated: the Calls accessor, the two reset methods and the struct layout.

func init() { register("MatryerBody", genMatryerBody) }

var (
	// only the interface's own template data ($mock.TemplateData) is understood; a lookup in the
	// package-level data ($.TemplateData) is a different condition and is left to the "unknown" path
	reIfNot    = regexp.MustCompile(`^\{\{-?\s*if not \(index \$mock\.TemplateData "([^"]+)"\)\s*-?\}\}$`)
	reIfIdx    = regexp.MustCompile(`^\{\{-?\s*if \(?index \$mock\.TemplateData "([^"]+)"\)?\s*-?\}\}$`)
	reIfRet    = regexp.MustCompile(`^\{\{-?\s*if \.Returns\s*-?\}\}$`)
	reElse     = regexp.MustCompile(`^\{\{-?\s*else\s*-?\}\}$`)
	reEnd      = regexp.MustCompile(`^\{\{-?\s*end\s*-?\}\}$`)
	reRange    = regexp.MustCompile(`^\{\{-?\s*range (\.[A-Za-z]+)\s*-?\}\}$`)
	reAction   = regexp.MustCompile(`\{\{-?\s*([^}]*?)\s*-?\}\}`)
	actionName = map[string]string{"$mock.StructName": "STRUCT", ".Name": "METHOD", "$mock.Name": "IFACE", "$mock.TypeInstantiation": "TINST",
		".ArgList": "ARGLIST", ".ReturnArgTypeList": "RETTYPES", ".ArgCallList": "ARGCALL", ".ArgCallListNoEllipsis": "ARGCALLNOELLIPSIS",
		".ReturnArgNameList": "RETNAMES", ".TypeString": "TYPE", ".Name | exported": "EXPORTED(METHOD)"}
)

type bodyStmt struct{ cond, nilBlock, kind, detail string }

func symbolic(line string) string {
	return reAction.ReplaceAllStringFunc(line, func(a string) string {
		m := reAction.FindStringSubmatch(a)
		if n, ok := actionName[m[1]]; ok {
			return n
		}
		return "{{" + m[1] + "}}"
	})
}

// translate a run of template lines (one emitted Go function)
func translateBody(lines []string) []bodyStmt {
	var out []bodyStmt
	type frame struct{ kind, val string }
	var stack []frame
	inNil := false
	inStructType, inStructLit, inVar := false, false, false
	conds := func() string {
		var cs []string
		for _, f := range stack {
			if f.kind == "cond" {
				cs = append(cs, f.val)
			}
		}
		return strings.Join(cs, "&")
	}
	inRange := func() string {
		for i := len(stack) - 1; i >= 0; i-- {
			if stack[i].kind == "range" {
				return stack[i].val
			}
		}
		return ""
	}
	emit := func(kind, detail string) {
		nb := "no"
		if inNil {
			nb = "nil"
		}
		out = append(out, bodyStmt{conds(), nb, kind, detail})
	}
	for _, raw := range lines {
		l := strings.TrimSpace(raw)
		if l == "" || strings.HasPrefix(l, "//") {
			continue
		}
		switch {
		case reIfNot.MatchString(l):
			stack = append(stack, frame{"cond", "not-" + reIfNot.FindStringSubmatch(l)[1]})
			continue
		case reIfIdx.MatchString(l):
			stack = append(stack, frame{"cond", reIfIdx.FindStringSubmatch(l)[1]})
			continue
		case reIfRet.MatchString(l):
			stack = append(stack, frame{"cond", "returns"})
			continue
		case reElse.MatchString(l):
			if n := len(stack); n > 0 && stack[n-1].kind == "cond" {
				v := stack[n-1].val
				if strings.HasPrefix(v, "not-") {
					v = strings.TrimPrefix(v, "not-")
				} else {
					v = "not-" + v
				}
				stack[n-1].val = v
			} else {
				emit("unknown", l)
			}
			continue
		case reEnd.MatchString(l):
			// an `end` that closes a block opened before this section is not part of it
			if len(stack) > 0 {
				stack = stack[:len(stack)-1]
			}
			continue
		case reRange.MatchString(l):
			stack = append(stack, frame{"range", reRange.FindStringSubmatch(l)[1]})
			continue
		}
		s := symbolic(l)
		switch {
		case s == "if mock.METHODFunc == nil {":
			inNil = true
		case s == "}" && inNil && !inStructType && !inStructLit:
			inNil = false
		case strings.HasPrefix(s, "panic(\"") && strings.HasSuffix(s, "\")"):
			emit("panic", strings.TrimSuffix(strings.TrimPrefix(s, "panic(\""), "\")"))
		case s == "callInfo := struct {":
			inStructType = true
		case s == "}{" && inStructType:
			inStructType, inStructLit = false, true
		case s == "}" && inStructLit:
			inStructLit = false
		case inStructType && inRange() == ".Params" && s == "EXPORTED(METHOD) TYPE":
			emit("record-field-type", "exported(param) type")
		case inStructLit && inRange() == ".Params" && s == "EXPORTED(METHOD): METHOD,":
			emit("record-field", "exported(param): param")
		case s == "mock.lockMETHOD.Lock()":
			emit("lock", "")
		case s == "mock.lockMETHOD.Unlock()":
			emit("unlock", "")
		case s == "mock.lockMETHOD.RLock()":
			emit("rlock", "")
		case s == "mock.lockMETHOD.RUnlock()":
			emit("runlock", "")
		case s == "mock.calls.METHOD = append(mock.calls.METHOD, callInfo)":
			emit("append", "callInfo")
		case s == "mock.calls.METHOD = nil":
			emit("clear", "")
		case s == "calls = mock.calls.METHOD":
			emit("snapshot", "")
		case s == "return calls":
			emit("return-calls", "")
		case s == "var (":
			inVar = true
		case s == ")" && inVar:
			inVar = false
		case inVar && inRange() == ".Returns" && s == "METHOD TYPE":
			emit("zero-var", "result type")
		case s == "return RETNAMES":
			emit("return-zero", "RETNAMES")
		case s == "return":
			emit("return-zero", "")
		case s == "return mock.METHODFunc(ARGCALL)":
			emit("forward", "return ARGCALL")
		case s == "mock.METHODFunc(ARGCALL)":
			emit("forward", "ARGCALL")
		case strings.HasPrefix(s, "func (mock *STRUCTTINST) METHOD(ARGLIST) RETTYPES {"):
			emit("signature", "METHOD(ARGLIST) RETTYPES")
		case strings.HasPrefix(s, "func (mock *STRUCTTINST) METHODCalls() []struct {"):
			emit("signature", "METHODCalls()")
			inStructType = true
		case s == "} {" && inStructType:
			inStructType = false
		case s == "var calls []struct {":
			inStructType = true
		case strings.HasPrefix(s, "func (mock *STRUCTTINST) ResetMETHODCalls() {"):
			emit("signature", "ResetMETHODCalls()")
		case strings.HasPrefix(s, "func (mock *STRUCTTINST) ResetCalls() {"):
			emit("signature", "ResetCalls()")
		case s == "}" && inStructType:
			inStructType = false
		case s == "}":
			// end of the function
		default:
			emit("unknown", s)
		}
	}
	return out
}

func genMatryerBody(src string) (string, error) {
	raw, err := os.ReadFile(filepath.Join(src, "internal", "mock_matryer.templ"))
	if err != nil {
		return "", err
	}
	lines := strings.Split(string(raw), "\n")
	find := func(prefix string, from int) int {
		for i := from; i < len(lines); i++ {
			if strings.HasPrefix(strings.TrimSpace(lines[i]), prefix) {
				return i
			}
		}
		return -1
	}
	iCall := find("// {{.Name}} calls {{.Name}}Func.", 0)
	iCalls := find("// {{.Name}}Calls gets all the calls", iCall)
	iResetOne := find("// Reset{{.Name}}Calls reset all the calls", iCalls)
	iResetAll := find("// ResetCalls reset all the calls", iResetOne)
	if iCall < 0 || iCalls < 0 || iResetOne < 0 || iResetAll < 0 {
		return "", fmt.Errorf("method sections not found in mock_matryer.templ")
	}
	// the accessor section ends where the with-resets block starts
	iWithResets := -1
	for i := iCalls; i < iResetOne; i++ {
		if strings.Contains(lines[i], `"with-resets"`) {
			iWithResets = i
		}
	}
	if iWithResets < 0 {
		return "", fmt.Errorf("with-resets guard of Reset<M>Calls not found")
	}
	iResetAllGuard := -1
	for i := iResetOne; i < iResetAll; i++ {
		if strings.Contains(lines[i], `"with-resets"`) {
			iResetAllGuard = i
		}
	}
	if iResetAllGuard < 0 {
		return "", fmt.Errorf("with-resets guard of ResetCalls not found")
	}
	var b strings.Builder
	b.WriteString("/- GENERATED by verifx from internal/mock_matryer.templ: the emitted method bodies, statement by statement.\n   Rewritten on every check run. -/\n")
	b.WriteString("namespace Mockery.Generated\n")
	write := func(name, doc string, stmts []bodyStmt) {
		fmt.Fprintf(&b, "/-- %s: (template conditions, inside `if <M>Func == nil`?, statement, detail) -/\n", doc)
		fmt.Fprintf(&b, "def %s : List (List String × String × String × String) :=\n  [", name)
		for i, s := range stmts {
			if i > 0 {
				b.WriteString(",\n   ")
			}
			cs := []string{}
			if s.cond != "" {
				cs = strings.Split(s.cond, "&")
			}
			fmt.Fprintf(&b, "(%s, %s, %s, %s)", leanStrList(cs), leanStr(s.nilBlock), leanStr(s.kind), leanStr(s.detail))
		}
		b.WriteString("]\n")
	}
	write("matryerCallBody", "the mocked method", translateBody(lines[iCall:iCalls]))
	write("matryerCallsBody", "the <M>Calls accessor", translateBody(lines[iCalls:iWithResets]))
	write("matryerResetOneBody", "Reset<M>Calls (inside the with-resets guard)", translateBody(lines[iResetOne:iResetAllGuard-1]))
	// ResetCalls: the per-method range body
	write("matryerResetAllBody", "ResetCalls: the statements emitted per method", translateBody(lines[iResetAll:len(lines)]))
	fmt.Fprintf(&b, "/-- the template conditions guarding the two reset methods -/\ndef matryerResetGuards : List String := [%s, %s]\n",
		leanStr(strings.TrimSpace(lines[iWithResets])), leanStr(strings.TrimSpace(lines[iResetAllGuard])))
	b.WriteString("end Mockery.Generated\n")
	return b.String(), nil
}
