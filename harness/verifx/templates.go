//go:build verif

package main

import (
	"fmt"
	"os"
	"path/filepath"
	"regexp"
	"sort"
	"strings"
	"text/template/parse"
)

// G6 / G9: facts about the two built-in templates, read from their text:
//  * identifiers the emitted Go code declares itself (receivers, locals, helper parameters) –
//    the names a user's parameter must not collide with;
//  * imports a template registers on its own;
//  * template functions and data-model methods it calls (nothing nondeterministic);
//  * for matryer: the lock / access sequence of every emitted method body (G9).

func init() { register("TemplateFacts", genTemplateFacts) }

var (
	reShortDecl = regexp.MustCompile(`(?:^|[\s{(;])([A-Za-z_][A-Za-z0-9_]*(?:\s*,\s*[A-Za-z_][A-Za-z0-9_]*)*)\s*:=`)
	reVarDecl   = regexp.MustCompile(`\bvar\s+([A-Za-z_][A-Za-z0-9_]*)\b`)
	reRecv      = regexp.MustCompile(`func\s*\(\s*([A-Za-z_][A-Za-z0-9_]*)\s+\*`)
	reFuncParam = regexp.MustCompile(`\(\s*([A-Za-z_][A-Za-z0-9_]*)\s+(?:func\s*\(|mock\.[A-Z]|TESTIFY\.[A-Z]|interface\s*\{)`)
	reAddImport = regexp.MustCompile(`AddImport\s+"([^"]+)"\s+"([^"]+)"`)
	reLockOp    = regexp.MustCompile(`mock\.lock\{\{\s*\.Name\s*\}\}\.(Lock|Unlock|RLock|RUnlock)\(\)|mock\.calls\.\{\{\s*\.Name\s*\}\}\s*=\s*(append|nil)|=\s*mock\.calls\.\{\{\s*\.Name\s*\}\}`)
)

// textOf concatenates the literal text of a template with every action replaced by a placeholder,
// so that Go-level regexes see the emitted code's shape.
func textOf(n parse.Node, b *strings.Builder) {
	switch x := n.(type) {
	case *parse.ListNode:
		if x == nil {
			return
		}
		for _, c := range x.Nodes {
			textOf(c, b)
		}
	case *parse.TextNode:
		b.Write(x.Text)
	case *parse.ActionNode:
		s := x.String()
		switch {
		case strings.Contains(s, "$retIdx"):
			b.WriteString("IDX")
		case strings.Contains(s, "$retArgs"):
			b.WriteString("RETARGS")
		case strings.TrimSpace(strings.Trim(s, "{}")) == "$testify":
			b.WriteString("TESTIFY")
		default:
			b.WriteString("ACTION")
		}
	case *parse.IfNode:
		textOf(x.List, b)
		textOf(x.ElseList, b)
	case *parse.RangeNode:
		textOf(x.List, b)
		textOf(x.ElseList, b)
	case *parse.WithNode:
		textOf(x.List, b)
		textOf(x.ElseList, b)
	}
}

func calledFuncs(n parse.Node, funcs, fields map[string]bool) {
	switch x := n.(type) {
	case *parse.ListNode:
		if x == nil {
			return
		}
		for _, c := range x.Nodes {
			calledFuncs(c, funcs, fields)
		}
	case *parse.ActionNode:
		calledFuncs(x.Pipe, funcs, fields)
	case *parse.PipeNode:
		if x == nil {
			return
		}
		for _, c := range x.Cmds {
			for _, a := range c.Args {
				calledFuncs(a, funcs, fields)
			}
		}
	case *parse.IdentifierNode:
		funcs[x.Ident] = true
	case *parse.FieldNode:
		fields[x.Ident[len(x.Ident)-1]] = true
	case *parse.ChainNode:
		calledFuncs(x.Node, funcs, fields)
		if len(x.Field) > 0 {
			fields[x.Field[len(x.Field)-1]] = true
		}
	case *parse.VariableNode:
		if len(x.Ident) > 1 {
			fields[x.Ident[len(x.Ident)-1]] = true
		}
	case *parse.IfNode:
		calledFuncs(x.Pipe, funcs, fields)
		calledFuncs(x.List, funcs, fields)
		calledFuncs(x.ElseList, funcs, fields)
	case *parse.RangeNode:
		calledFuncs(x.Pipe, funcs, fields)
		calledFuncs(x.List, funcs, fields)
		calledFuncs(x.ElseList, funcs, fields)
	case *parse.WithNode:
		calledFuncs(x.Pipe, funcs, fields)
		calledFuncs(x.List, funcs, fields)
		calledFuncs(x.ElseList, funcs, fields)
	}
}

func templateFacts(src, name string) (locals, imports, funcs []string, text string, err error) {
	raw, err := os.ReadFile(filepath.Join(src, "internal", "mock_"+name+".templ"))
	if err != nil {
		return nil, nil, nil, "", err
	}
	trees, err := parse.Parse(name, string(raw), "{{", "}}", stubFuncs(), stubFuncs())
	if err != nil {
		return nil, nil, nil, "", err
	}
	tree := trees[name]
	var b strings.Builder
	textOf(tree.Root, &b)
	text = b.String()
	// comments of the emitted code declare nothing
	var code []string
	for _, l := range strings.Split(text, "\n") {
		if !strings.HasPrefix(strings.TrimSpace(l), "//") {
			code = append(code, l)
		}
	}
	codeText := strings.Join(code, "\n")
	set := map[string]bool{}
	for _, m := range reShortDecl.FindAllStringSubmatch(codeText, -1) {
		for _, id := range strings.Split(m[1], ",") {
			set[strings.TrimSpace(id)] = true
		}
	}
	for _, re := range []*regexp.Regexp{reVarDecl, reRecv, reFuncParam} {
		for _, m := range re.FindAllStringSubmatch(codeText, -1) {
			set[m[1]] = true
		}
	}
	// `for i, a := range` / `if x, ok :=` are covered by reShortDecl; `var rIDX T` declares r0, r1, …
	if set["argACTION"] {
		// `var arg{{$i}} T` declares arg0, arg1, …
		delete(set, "argACTION")
		set["argIDX"] = true
	}
	delete(set, "ACTION")
	delete(set, "RETARGS")
	delete(set, "_")
	for k := range set {
		locals = append(locals, k)
	}
	sort.Strings(locals)
	for _, m := range reAddImport.FindAllStringSubmatch(string(raw), -1) {
		imports = append(imports, m[2])
	}
	if strings.Contains(string(raw), `"github.com/stretchr/testify/mock"`) {
		dup := false
		for _, i := range imports {
			if i == "github.com/stretchr/testify/mock" {
				dup = true
			}
		}
		if !dup {
			imports = append(imports, "github.com/stretchr/testify/mock")
		}
	}
	fs, fields := map[string]bool{}, map[string]bool{}
	calledFuncs(tree.Root, fs, fields)
	for k := range fs {
		funcs = append(funcs, k)
	}
	sort.Strings(funcs)
	return
}

func stubFuncs() map[string]any {
	m := map[string]any{}
	for _, n := range []string{"add", "exported", "firstIsLower", "firstUpper", "readFile", "trimPrefix", "index", "len", "printf", "eq", "ne", "lt", "gt", "not", "and", "or", "slice",
		"contains", "hasPrefix", "hasSuffix", "join", "replace", "replaceAll", "split", "splitAfter", "splitAfterN", "trim", "trimLeft", "trimRight", "trimSpace", "trimSuffix", "lower", "upper",
		"camelcase", "snakecase", "kebabcase", "firstLower", "matchString", "quoteMeta", "base", "clean", "dir", "expandEnv", "getenv", "decr", "div", "incr", "min", "mod", "mul", "sub", "ceil", "floor", "round", "randInt"} {
		m[n] = func() string { return "" }
	}
	return m
}

func genTemplateFacts(src string) (string, error) {
	var b strings.Builder
	b.WriteString("/- GENERATED by verifx from internal/mock_testify.templ and internal/mock_matryer.templ. Rewritten on every check run. -/\n")
	b.WriteString("namespace Mockery.Generated\n")
	for _, name := range []string{"testify", "matryer"} {
		locals, imports, funcs, text, err := templateFacts(src, name)
		if err != nil {
			return "", fmt.Errorf("%s: %w", name, err)
		}
		fmt.Fprintf(&b, "/-- identifiers the code emitted by the %s template declares itself (`rIDX` stands for r0, r1, …) -/\n", name)
		fmt.Fprintf(&b, "def %sLocals : List String := %s\n", name, leanStrList(locals))
		fmt.Fprintf(&b, "/-- imports the %s template registers or hard-codes itself -/\n", name)
		fmt.Fprintf(&b, "def %sOwnImports : List String := %s\n", name, leanStrList(imports))
		fmt.Fprintf(&b, "/-- template functions the %s template calls -/\n", name)
		fmt.Fprintf(&b, "def %sFuncs : List String := %s\n", name, leanStrList(funcs))
		if name == "testify" {
			// shared state the emitted code declares: fields of every struct type and package-level variables
			var fields, vars []string
			lines := strings.Split(text, "\n")
			for i := 0; i < len(lines); i++ {
				l := lines[i]
				if strings.HasPrefix(l, "var ") {
					vars = append(vars, strings.TrimSpace(l))
				}
				if strings.HasPrefix(l, "type ") && strings.HasSuffix(strings.TrimSpace(l), "struct {") {
					for i++; i < len(lines) && !strings.HasPrefix(strings.TrimSpace(lines[i]), "}"); i++ {
						if f := strings.TrimSpace(lines[i]); f != "" && !strings.HasPrefix(f, "//") {
							fields = append(fields, f)
						}
					}
				}
			}
			sort.Strings(fields)
			b.WriteString("/-- fields of the struct types the testify template declares (all of them) -/\n")
			fmt.Fprintf(&b, "def testifyStructFields : List String := %s\n", leanStrList(fields))
			b.WriteString("/-- package-level variables the testify template declares -/\n")
			fmt.Fprintf(&b, "def testifyPackageVars : List String := %s\n", leanStrList(vars))
		}
		if name == "matryer" {
			// G9: lock schema per emitted method kind
			kinds := [][2]string{{"call", "// ACTION calls ACTIONFunc."}, {"calls", "// ACTIONCalls gets all the calls"}, {"resetOne", "// ResetACTIONCalls reset all the calls"}, {"resetAll", "// ResetCalls reset all the calls"}}
			for i, k := range kinds {
				start := strings.Index(text, k[1])
				if start < 0 {
					return "", fmt.Errorf("matryer: section %q not found", k[1])
				}
				end := len(text)
				for j := i + 1; j < len(kinds); j++ {
					if e := strings.Index(text[start:], kinds[j][1]); e >= 0 {
						end = start + e
						break
					}
				}
				ops := []string{}
				deferred := []string{}
				for _, m := range reLockOpText.FindAllString(text[start:end], -1) {
					op := ""
					switch {
					case strings.Contains(m, ".Lock()"):
						op = "lock"
					case strings.Contains(m, ".Unlock()"):
						op = "unlock"
					case strings.Contains(m, ".RLock()"):
						op = "rlock"
					case strings.Contains(m, ".RUnlock()"):
						op = "runlock"
					case strings.Contains(m, "append("):
						op = "append"
					case strings.HasSuffix(strings.TrimSpace(m), "nil"):
						op = "clear"
					default:
						// any other mention of the call log is a read of it
						op = "snapshot"
					}
					if strings.HasPrefix(m, "defer") {
						// runs when the emitted function returns
						deferred = append([]string{op}, deferred...)
						continue
					}
					ops = append(ops, op)
				}
				ops = append(ops, deferred...)
				fmt.Fprintf(&b, "/-- matryer `%s`: lock operations and accesses to the call log, in emitted order -/\n", k[0])
				fmt.Fprintf(&b, "def matryerSchema_%s : List String := %s\n", k[0], leanStrList(ops))
			}
		}
	}
	b.WriteString("end Mockery.Generated\n")
	return b.String(), nil
}

// on the placeholder text: mock.lockACTION.Lock(), mock.calls.ACTION = append(mock.calls.ACTION, callInfo), calls = mock.calls.ACTION
var reLockOpText = regexp.MustCompile(`(?:defer\s+)?mock\.lockACTION\.(?:Lock|Unlock|RLock|RUnlock)\(\)|mock\.calls\.ACTION\s*=\s*append\(mock\.calls\.ACTION[^)]*\)|mock\.calls\.ACTION\s*=\s*nil|mock\.calls\.ACTION`)
