//go:build verif

package main

// godecide: a translator from a small subset of Go – decision functions: `if` chains over
// opaque conditions, early returns, `v, err := f(...)` followed by the usual error check,
// `for … range` loops that only decide and return – to Lean 4 function definitions
// (Generated/Decide.lean). The theorems of the property files are stated about these
// definitions, so they are re-checked against what the source says on every run.
//
// What the translator does not recognise makes the definition fail to elaborate (the
// dependent theorems are then reported broken). Logging is the only statement it drops:
// expression statements and definitions rooted at one of the function's declared
// "ignore" identifiers (log, logger, …).

import (
	"bytes"
	"fmt"
	"go/ast"
	"go/parser"
	"go/printer"
	"go/token"
	"path/filepath"
	"strings"
)

type decideSpec struct {
	file   string // relative to the repository root
	recv   string // receiver type name ("" for a plain function)
	fn     string
	lean   string            // name of the Lean definition
	params string            // Lean binder list
	result string            // Lean result type
	atoms  map[string]string // printed Go expression -> Lean term (a parameter, or an application of parameters)
	calls  map[string]string // callee of a `v, err :=` call -> Lean function of type … → Option _ (none: the call fails)
	errs   map[string]string // printed Go error expression or call name -> Lean error term
	ignore []string          // roots of logging expressions
	// statements (printed) that change state outside the decision and are declared as such: skipped
	effects []string
	// identifiers dropped from argument lists (contexts, handles the Lean parameter already closes over)
	dropArgs []string
	// element type of the lists search loops run over (default String)
	elemType string
	okWrap string            // how `return v, nil` is written: "pure" etc.
	// plain: the function has no error result; `return e` is the value e
	plain bool
	// callee of a two-valued `a, b := f(…)` that cannot fail -> Lean function returning a pair
	pairs map[string]string
	// arithmetic operator -> Lean function of two arguments (the element type stays abstract)
	binops map[string]string
	// callee of a pure call inside an expression -> Lean function ("[from:]" is the slice expression x[lo:])
	funcs map[string]string
	// trace mode: the result is the list of declared effects in execution order. printed statement -> effect name
	trace map[string]string
	// printed `v, ok := <type assertion or lookup>` statement -> Lean Bool the second variable is bound to
	okDefs map[string]string
	// translate the body of the function's first `for` loop (one iteration) instead of the function body
	loopBody bool
	// with loopBody: the range loop over this expression (printed) instead of the first loop
	loopOver string
	// … and not the first such loop but the one after this many of them
	loopSkip int
	// `var x T` declarations whose zero value is read on some path: name -> Lean term of the zero value
	zeros map[string]string
	// printed `v, ok := m[k]` statement that is followed by `if !ok { … return … }` -> Lean Option term looked up
	lookups map[string]string
}

type decideTr struct {
	spec  *decideSpec
	fset  *token.FileSet
	bound map[string]bool
	// err variable -> the call that produced it (for the error term of `return …, err`)
	errFrom map[string]string
	// variables bound to a string literal (error messages)
	strConst map[string]string
}

func (t *decideTr) text(n ast.Node) string {
	var b bytes.Buffer
	printer.Fprint(&b, t.fset, n)
	return strings.Join(strings.Fields(b.String()), " ")
}

func (t *decideTr) isIgnoredRoot(e ast.Expr) bool {
	for {
		switch x := e.(type) {
		case *ast.CallExpr:
			e = x.Fun
		case *ast.SelectorExpr:
			e = x.X
		case *ast.Ident:
			for _, r := range t.spec.ignore {
				if x.Name == r {
					return true
				}
			}
			return false
		default:
			return false
		}
	}
}

func (t *decideTr) expr(e ast.Expr) (string, error) {
	if a, ok := t.spec.atoms[t.text(e)]; ok {
		return "(" + a + ")", nil
	}
	switch x := e.(type) {
	case *ast.ParenExpr:
		return t.expr(x.X)
	case *ast.Ident:
		switch x.Name {
		case "true", "false":
			return x.Name, nil
		}
		if t.bound[x.Name] {
			return leanIdent(x.Name), nil
		}
		return "", fmt.Errorf("unknown identifier %s", x.Name)
	case *ast.BasicLit:
		if x.Kind == token.STRING {
			s := x.Value
			if strings.HasPrefix(s, "`") {
				return leanStr(strings.Trim(s, "`")), nil
			}
			return s, nil // Go's interpreted string syntax is Lean's for the escapes used here
		}
		if x.Kind == token.INT {
			return x.Value, nil
		}
	case *ast.CallExpr:
		if fn, ok := t.spec.funcs[t.text(x.Fun)]; ok {
			as, err := t.args(x.Args)
			if err != nil {
				return "", err
			}
			return "(" + fn + " " + strings.Join(as, " ") + ")", nil
		}
	case *ast.SliceExpr:
		if fn, ok := t.spec.funcs["[from:]"]; ok && x.Low != nil && x.High == nil && !x.Slice3 {
			a, err := t.expr(x.X)
			if err != nil {
				return "", err
			}
			lo, err := t.expr(x.Low)
			if err != nil {
				return "", err
			}
			return "(" + fn + " " + a + " " + lo + ")", nil
		}
	case *ast.UnaryExpr:
		if x.Op == token.NOT {
			a, err := t.expr(x.X)
			if err != nil {
				return "", err
			}
			return "(!" + a + ")", nil
		}
	case *ast.BinaryExpr:
		a, err := t.expr(x.X)
		if err != nil {
			return "", err
		}
		b, err := t.expr(x.Y)
		if err != nil {
			return "", err
		}
		if fn, ok := t.spec.binops[x.Op.String()]; ok {
			return "(" + fn + " " + a + " " + b + ")", nil
		}
		switch x.Op {
		case token.EQL:
			return "(" + a + " == " + b + ")", nil
		case token.NEQ:
			return "(" + a + " != " + b + ")", nil
		case token.LAND:
			return "(" + a + " && " + b + ")", nil
		case token.LOR:
			return "(" + a + " || " + b + ")", nil
		}
	}
	return "", fmt.Errorf("expression not in the subset: %s", t.text(e))
}

func leanIdent(s string) string { return "v_" + s }

func (t *decideTr) args(as []ast.Expr) ([]string, error) {
	var out []string
next:
	for _, a := range as {
		for _, d := range t.spec.dropArgs {
			if t.text(a) == d {
				continue next
			}
		}
		s, err := t.expr(a)
		if err != nil {
			return nil, err
		}
		out = append(out, s)
	}
	return out, nil
}

// hasReturn: does the statement list (transitively) contain a return?
func hasReturn(ss []ast.Stmt) bool {
	found := false
	for _, s := range ss {
		ast.Inspect(s, func(n ast.Node) bool {
			if _, ok := n.(*ast.ReturnStmt); ok {
				found = true
			}
			if _, ok := n.(*ast.FuncLit); ok {
				return false
			}
			return true
		})
	}
	return found
}

func (t *decideTr) onlyLogging(ss []ast.Stmt) bool {
	for _, s := range ss {
		switch x := s.(type) {
		case *ast.ExprStmt:
			if !t.isIgnoredRoot(x.X) {
				return false
			}
		case *ast.AssignStmt:
			if len(x.Rhs) != 1 || !(t.isIgnoredRoot(x.Rhs[0]) || (len(x.Lhs) == 1 && t.isIgnoredRoot(x.Lhs[0]))) {
				return false
			}
		case *ast.IfStmt:
			if x.Init != nil || !t.onlyLogging(x.Body.List) {
				return false
			}
			if x.Else != nil {
				eb, ok := x.Else.(*ast.BlockStmt)
				if !ok || !t.onlyLogging(eb.List) {
					return false
				}
			}
		default:
			return false
		}
	}
	return true
}

func (t *decideTr) ret(r *ast.ReturnStmt) (string, error) {
	n := len(r.Results)
	if n == 0 {
		return "", fmt.Errorf("bare return")
	}
	if t.spec.plain {
		var vs []string
		for _, v := range r.Results {
			s, err := t.expr(v)
			if err != nil {
				return "", err
			}
			vs = append(vs, s)
		}
		if len(vs) == 1 {
			return vs[0], nil
		}
		return "(" + strings.Join(vs, ", ") + ")", nil
	}
	last := r.Results[n-1]
	lt := t.text(last)
	if lt != "nil" {
		// an error return
		if e, ok := t.spec.errs[lt]; ok {
			return "(throw " + e + ")", nil
		}
		if id, ok := last.(*ast.Ident); ok {
			if from, ok := t.errFrom[id.Name]; ok {
				if e, ok := t.spec.errs[from]; ok {
					return "(throw " + e + ")", nil
				}
			}
		}
		// fmt.Errorf("text …", err), errors.New(msg) and friends: keyed by their first string literal
		var lit string
		ast.Inspect(last, func(n ast.Node) bool {
			if b, ok := n.(*ast.BasicLit); ok && b.Kind == token.STRING && lit == "" {
				lit = b.Value
			}
			if id, ok := n.(*ast.Ident); ok && lit == "" {
				if c, ok := t.strConst[id.Name]; ok {
					lit = c
				}
			}
			return true
		})
		if e, ok := t.spec.errs[lit]; ok {
			return "(throw " + e + ")", nil
		}
		return "", fmt.Errorf("error value not in the table: %s", lt)
	}
	if n == 1 {
		return "(pure ())", nil
	}
	var vs []string
	for _, v := range r.Results[:n-1] {
		s, err := t.expr(v)
		if err != nil {
			return "", err
		}
		vs = append(vs, s)
	}
	if len(vs) == 1 {
		return "(pure " + vs[0] + ")", nil
	}
	return "(pure (" + strings.Join(vs, ", ") + "))", nil
}

// stmts translates a statement list in continuation style; `fall` is what falling off the end means
// (inside a loop body: continue with the next element).
func (t *decideTr) stmts(ss []ast.Stmt, fall string) (string, error) {
	if len(ss) == 0 {
		if fall == "" {
			return "", fmt.Errorf("control reaches the end of the function")
		}
		return fall, nil
	}
	s, rest := ss[0], ss[1:]
	for _, e := range t.spec.effects {
		if t.text(s) == e {
			return t.stmts(rest, fall)
		}
	}
	if name, ok := t.spec.trace[t.text(s)]; ok {
		cont, err := t.stmts(rest, fall)
		if err != nil {
			return "", err
		}
		return "(" + leanStr(name) + " :: " + cont + ")", nil
	}
	if term, ok := t.spec.lookups[t.text(s)]; ok && len(rest) > 0 {
		as, isAs := s.(*ast.AssignStmt)
		chk, isIf := rest[0].(*ast.IfStmt)
		if isAs && isIf && len(as.Lhs) == 2 && chk.Init == nil && chk.Else == nil && t.text(chk.Cond) == "!"+t.text(as.Lhs[1]) {
			missing, err := t.stmts(chk.Body.List, "")
			if err != nil {
				return "", err
			}
			v := as.Lhs[0].(*ast.Ident)
			t.bound[v.Name] = true
			cont, err := t.stmts(rest[1:], fall)
			if err != nil {
				return "", err
			}
			return fmt.Sprintf("(match %s with\n  | none => %s\n  | some %s => %s)", term, missing, leanIdent(v.Name), cont), nil
		}
	}
	if b, ok := t.spec.okDefs[t.text(s)]; ok {
		as := s.(*ast.AssignStmt)
		okv := as.Lhs[1].(*ast.Ident)
		t.bound[okv.Name] = true
		cont, err := t.stmts(rest, fall)
		if err != nil {
			return "", err
		}
		return fmt.Sprintf("(let %s := (%s)\n  %s)", leanIdent(okv.Name), b, cont), nil
	}
	switch x := s.(type) {
	case *ast.BranchStmt:
		if x.Tok == token.CONTINUE && x.Label == nil && (t.spec.loopBody || fall == "(loop rest)") {
			return fall, nil
		}
	case *ast.ExprStmt:
		if t.isIgnoredRoot(x.X) {
			return t.stmts(rest, fall)
		}
	case *ast.ReturnStmt:
		return t.ret(x)
	case *ast.AssignStmt:
		if len(x.Rhs) == 1 && (t.isIgnoredRoot(x.Rhs[0]) || (len(x.Lhs) == 1 && t.isIgnoredRoot(x.Lhs[0]))) {
			return t.stmts(rest, fall)
		}
		// v, err := call(args…) ; if err != nil { return … }
		if len(x.Lhs) == 2 && len(x.Rhs) == 1 {
			if call, ok := x.Rhs[0].(*ast.CallExpr); ok {
				callee := t.text(call.Fun)
				fn, known := t.spec.calls[callee]
				v, ok1 := x.Lhs[0].(*ast.Ident)
				e, ok2 := x.Lhs[1].(*ast.Ident)
				if known && ok1 && ok2 && len(rest) > 0 {
					if chk, ok := rest[0].(*ast.IfStmt); ok && chk.Init == nil && chk.Else == nil && t.text(chk.Cond) == e.Name+" != nil" {
						args, err := t.args(call.Args)
						if err != nil {
							return "", err
						}
						t.errFrom[e.Name] = callee
						onErr, err := t.stmts(chk.Body.List, "")
						if err != nil {
							return "", err
						}
						t.bound[v.Name] = true
						cont, err := t.stmts(rest[1:], fall)
						if err != nil {
							return "", err
						}
						return fmt.Sprintf("(match %s %s with\n  | none => %s\n  | some %s => %s)", fn, strings.Join(args, " "), onErr, leanIdent(v.Name), cont), nil
					}
				}
			}
		}
		// a, b := f(args…) for a two-valued f that cannot fail (utf8.DecodeRuneInString)
		if len(x.Lhs) == 2 && len(x.Rhs) == 1 && x.Tok == token.DEFINE {
			if call, ok := x.Rhs[0].(*ast.CallExpr); ok {
				if fn, known := t.spec.pairs[t.text(call.Fun)]; known {
					args, err := t.args(call.Args)
					if err != nil {
						return "", err
					}
					var names []string
					for _, l := range x.Lhs {
						id, ok := l.(*ast.Ident)
						if !ok {
							return "", fmt.Errorf("pair definition of a non-identifier: %s", t.text(x))
						}
						if id.Name == "_" {
							names = append(names, "_")
						} else {
							t.bound[id.Name] = true
							names = append(names, leanIdent(id.Name))
						}
					}
					cont, err := t.stmts(rest, fall)
					if err != nil {
						return "", err
					}
					return fmt.Sprintf("(match %s %s with\n  | (%s) => %s)", fn, strings.Join(args, " "), strings.Join(names, ", "), cont), nil
				}
			}
		}
		// msg := "literal"
		if len(x.Lhs) == 1 && len(x.Rhs) == 1 && x.Tok == token.DEFINE {
			if v, ok := x.Lhs[0].(*ast.Ident); ok {
				if lit, ok := x.Rhs[0].(*ast.BasicLit); ok && lit.Kind == token.STRING {
					t.strConst[v.Name] = lit.Value
					return t.stmts(rest, fall)
				}
			}
		}
		// x := <expression>
		if len(x.Lhs) == 1 && len(x.Rhs) == 1 && (x.Tok == token.DEFINE || x.Tok == token.ASSIGN) {
			if v, ok := x.Lhs[0].(*ast.Ident); ok {
				rhs, err := t.expr(x.Rhs[0])
				if err != nil {
					return "", err
				}
				t.bound[v.Name] = true
				cont, err := t.stmts(rest, fall)
				if err != nil {
					return "", err
				}
				return fmt.Sprintf("(let %s := %s\n  %s)", leanIdent(v.Name), rhs, cont), nil
			}
		}
	case *ast.IfStmt:
		if t.onlyLogging([]ast.Stmt{x}) {
			return t.stmts(rest, fall)
		}
		// if err := call(args…); err != nil { return … }
		if as, ok := x.Init.(*ast.AssignStmt); ok && x.Else == nil && len(as.Lhs) == 1 && len(as.Rhs) == 1 {
			if call, ok := as.Rhs[0].(*ast.CallExpr); ok {
				callee := t.text(call.Fun)
				if fn, known := t.spec.calls[callee]; known && t.text(x.Cond) == t.text(as.Lhs[0])+" != nil" {
					args, err := t.args(call.Args)
					if err != nil {
						return "", err
					}
					t.errFrom[t.text(as.Lhs[0])] = callee
					onErr, err := t.stmts(x.Body.List, "")
					if err != nil {
						return "", err
					}
					cont, err := t.stmts(rest, fall)
					if err != nil {
						return "", err
					}
					return fmt.Sprintf("(match %s %s with\n  | none => %s\n  | some _ => %s)", fn, strings.Join(args, " "), onErr, cont), nil
				}
			}
		}
		var cond string
		if x.Init != nil {
			key := t.text(x.Init) + "; " + t.text(x.Cond)
			a, ok := t.spec.atoms[key]
			if !ok {
				return "", fmt.Errorf("if with an initialiser that is not a declared atom: %s", key)
			}
			cond = "(" + a + ")"
		} else {
			c, err := t.expr(x.Cond)
			if err != nil {
				return "", err
			}
			cond = c
		}
		// both branches continue with `rest` when they do not return
		thn, err := t.stmts(append(append([]ast.Stmt{}, x.Body.List...), rest...), fall)
		if err != nil {
			return "", err
		}
		var elsStmts []ast.Stmt
		if x.Else != nil {
			switch e := x.Else.(type) {
			case *ast.BlockStmt:
				elsStmts = e.List
			case *ast.IfStmt:
				elsStmts = []ast.Stmt{e}
			}
		}
		els, err := t.stmts(append(append([]ast.Stmt{}, elsStmts...), rest...), fall)
		if err != nil {
			return "", err
		}
		return fmt.Sprintf("(if %s then %s\n  else %s)", cond, thn, els), nil
	case *ast.DeclStmt:
		// var x T  (assigned on every path before it is read: the assignments are what is translated)
		if gd, ok := x.Decl.(*ast.GenDecl); ok && gd.Tok == token.VAR && len(gd.Specs) == 1 {
			if vs, ok := gd.Specs[0].(*ast.ValueSpec); ok && len(vs.Values) == 0 {
				if z, ok := t.spec.zeros[vs.Names[0].Name]; ok && len(vs.Names) == 1 {
					t.bound[vs.Names[0].Name] = true
					cont, err := t.stmts(rest, fall)
					if err != nil {
						return "", err
					}
					return fmt.Sprintf("(let %s := %s\n  %s)", leanIdent(vs.Names[0].Name), z, cont), nil
				}
				return t.stmts(rest, fall)
			}
		}
		// var acc T = <expression>
		if gd, ok := x.Decl.(*ast.GenDecl); ok && gd.Tok == token.VAR && len(gd.Specs) == 1 {
			if vs, ok := gd.Specs[0].(*ast.ValueSpec); ok && len(vs.Names) == 1 && len(vs.Values) == 1 {
				rhs, err := t.expr(vs.Values[0])
				if err != nil {
					return "", err
				}
				t.bound[vs.Names[0].Name] = true
				cont, err := t.stmts(rest, fall)
				if err != nil {
					return "", err
				}
				return fmt.Sprintf("(let %s := %s\n  %s)", leanIdent(vs.Names[0].Name), rhs, cont), nil
			}
		}
	case *ast.RangeStmt:
		// a loop that only logs
		if t.onlyLogging(x.Body.List) {
			return t.stmts(rest, fall)
		}
		// trace mode, outside the loop body: the loop as a whole is one effect (its body is translated on its own)
		if t.spec.trace != nil && (t.spec.loopBody || !hasReturn(x.Body.List)) {
			cont, err := t.stmts(rest, fall)
			if err != nil {
				return "", err
			}
			return "(" + leanStr("range "+t.text(x.X)) + " :: " + cont + ")", nil
		}
		// for _, i := range <atom list> { acc op= i }  – an accumulating loop: a left fold over the list
		if coll, ok := t.spec.atoms[t.text(x.X)]; ok && !hasReturn(x.Body.List) && x.Key != nil && t.text(x.Key) == "_" {
			if v, okv := x.Value.(*ast.Ident); okv && len(x.Body.List) == 1 {
				if as, ok := x.Body.List[0].(*ast.AssignStmt); ok && len(as.Lhs) == 1 && len(as.Rhs) == 1 {
					if acc, ok := as.Lhs[0].(*ast.Ident); ok && t.bound[acc.Name] {
						t.bound[v.Name] = true
						var step string
						var err error
						if as.Tok == token.ASSIGN {
							step, err = t.expr(as.Rhs[0])
						} else if fn, ok := t.spec.binops[strings.TrimSuffix(as.Tok.String(), "=")]; ok {
							var r string
							r, err = t.expr(as.Rhs[0])
							step = "(" + fn + " " + leanIdent(acc.Name) + " " + r + ")"
						} else {
							err = fmt.Errorf("assignment operator %s has no declared meaning", as.Tok)
						}
						if err != nil {
							return "", err
						}
						cont, err := t.stmts(rest, fall)
						if err != nil {
							return "", err
						}
						return fmt.Sprintf("(let %s := List.foldl (fun %s %s => %s) %s (%s)\n  %s)", leanIdent(acc.Name), leanIdent(acc.Name), leanIdent(v.Name), step, leanIdent(acc.Name), coll, cont), nil
					}
				}
			}
		}
		// for _, r := range <atom list> { … return … }  – a search loop: the first element that decides
		coll, ok := t.spec.atoms[t.text(x.X)]
		v, okv := x.Value.(*ast.Ident)
		if ok && okv && x.Key != nil && t.text(x.Key) == "_" {
			t.bound[v.Name] = true
			after, err := t.stmts(rest, fall)
			if err != nil {
				return "", err
			}
			body, err := t.stmts(x.Body.List, "(loop rest)")
			if err != nil {
				return "", err
			}
			et := t.spec.elemType
			if et == "" {
				et = "String"
			}
			return fmt.Sprintf("(let rec loop : List "+et+" → %s\n    | [] => %s\n    | %s :: rest => %s\n  loop (%s))", t.spec.result, after, leanIdent(v.Name), body, coll), nil
		}
	}
	return "", fmt.Errorf("statement not in the subset: %s", strings.SplitN(t.text(s), "{", 2)[0])
}

func translateDecide(src string, spec *decideSpec) (string, error) {
	fset := token.NewFileSet()
	f, err := parser.ParseFile(fset, filepath.Join(src, spec.file), nil, 0)
	if err != nil {
		return "", err
	}
	for _, d := range f.Decls {
		fd, ok := d.(*ast.FuncDecl)
		if !ok || fd.Name.Name != spec.fn || fd.Body == nil {
			continue
		}
		recv := ""
		if fd.Recv != nil && len(fd.Recv.List) == 1 {
			rt := fd.Recv.List[0].Type
			if st, ok := rt.(*ast.StarExpr); ok {
				rt = st.X
			}
			if id, ok := rt.(*ast.Ident); ok {
				recv = id.Name
			}
		}
		if recv != spec.recv {
			continue
		}
		t := &decideTr{spec: spec, fset: fset, bound: map[string]bool{}, errFrom: map[string]string{}, strConst: map[string]string{}}
		list, fall := fd.Body.List, ""
		if spec.loopBody {
			list = nil
			skipped := 0
			// the first loop of the function, wherever it is nested
			ast.Inspect(fd.Body, func(n ast.Node) bool {
				if list != nil {
					return false
				}
				switch f := n.(type) {
				case *ast.ForStmt:
					if spec.loopOver == "" {
						list, fall = f.Body.List, "[]"
					}
				case *ast.RangeStmt:
					if spec.loopOver == "" || (&decideTr{fset: fset}).text(f.X) == spec.loopOver {
						if skipped < spec.loopSkip {
							skipped++
						} else {
							list, fall = f.Body.List, "[]"
						}
					}
				case *ast.FuncLit:
					return false
				}
				return list == nil
			})
			if list == nil {
				return "", fmt.Errorf("%s.%s: no for loop", spec.recv, spec.fn)
			}
		}
		body, err := t.stmts(list, fall)
		if err != nil {
			return "", fmt.Errorf("%s.%s: %v", spec.recv, spec.fn, err)
		}
		return fmt.Sprintf("/-- translated from `%s` (%s) -/\ndef %s %s : %s :=\n  %s\n", spec.fn, spec.file, spec.lean, spec.params, spec.result, body), nil
	}
	return "", fmt.Errorf("function %s.%s not found in %s", spec.recv, spec.fn, spec.file)
}

var decideSpecs = []*decideSpec{
	{
		file: "internal/template_generator.go", recv: "TemplateGenerator", fn: "getTemplate", lean: "getTemplate",
		params: "{T S : Type} (protocols : List String) (hasPrefix : String → Bool) (requireSchemaExists : Bool) (fetchTemplate : Option T) (fetchSchema : Option (Option S)) (builtinTemplate : Option T) (builtinSchema : Option (Option S))",
		result: "Except String (T × Option S)",
		atoms: map[string]string{
			`[]string{"file://", "https://", "http://"}`: "protocols",
			"strings.HasPrefix(g.templateName, protocol)": "hasPrefix v_protocol",
			"g.requireSchemaExists":                       "requireSchemaExists",
		},
		calls: map[string]string{"remoteTemplate.Template": "fetchTemplate", "remoteTemplate.Schema": "fetchSchema", "gojsonschema.NewSchema": "builtinSchema"},
		errs: map[string]string{"\"downloading template: %w\"": "\"template\"", "\"downloading schema: %w\"": "\"schema\"",
			"\"template '%s' does not exist\"": "\"unknown-template\"", "\"generating schema: %w\"": "\"builtin-schema\""},
		zeros:   map[string]string{"schema": "(none : Option S)"},
		lookups: map[string]string{"templateString, styleExists := styleTemplates[g.templateName]": "builtinTemplate"},
		ignore:  []string{"log"},
		effects: []string{
			"ctx = log.WithContext(ctx)", "var err error", "var remoteTemplate *RemoteTemplate", "var styleExists bool",
			`cacheKey := g.templateName + "\n" + g.templateSchema`,
			"if cachedRemoteTemplate, ok := g.remoteTemplateCache[cacheKey]; !ok { remoteTemplate = NewRemoteTemplate(g.templateName, g.templateSchema) g.remoteTemplateCache[cacheKey] = remoteTemplate } else { remoteTemplate = cachedRemoteTemplate }",
		},
		dropArgs: []string{"ctx", "gojsonschema.NewStringLoader(jsonSchemas[g.templateName])"},
	},
	{
		file: "template/template_data.go", recv: "TemplateData", fn: "VerifyJSONSchema", lean: "verifyJSONSchema",
		params: "{R : Type} (validate : Option R) (isValid : R → Bool)",
		result: "Except String Unit",
		atoms:  map[string]string{"result.Valid()": "isValid v_result"},
		calls:  map[string]string{"schema.Validate": "validate"},
		errs: map[string]string{"\"validating json schema: %w\"": "\"validate-call\"", "ErrTemplateDataSchemaValidation": "\"invalid\""},
		ignore:   []string{"log"},
		dropArgs: []string{"gojsonschema.NewGoLoader(t)"},
	},
	{
		file: "config/config.go", recv: "PackageConfig", fn: "ShouldGenerateInterface", lean: "shouldGenerateInterface",
		params: "(all listed : Bool) (includeRegex excludeRegex interfaceName : String) (matchString : String → String → Option Bool)",
		result: "Except String Bool",
		atoms: map[string]string{
			"*c.Config.All": "all", "*c.Config.IncludeInterfaceRegex": "includeRegex", "*c.Config.ExcludeInterfaceRegex": "excludeRegex",
			"interfaceName": "interfaceName", "_, exists := c.Interfaces[interfaceName]; exists": "listed",
		},
		calls:  map[string]string{"regexp.MatchString": "matchString"},
		errs:   map[string]string{"\"evaluating `include-interface-regex`: %w\"": "\"include-interface-regex\"", "\"evaluating `exclude-interface-regex`: %w\"": "\"exclude-interface-regex\""},
		ignore: []string{"log"},
	},
	{
		file: "config/config.go", recv: "Config", fn: "ShouldExcludeSubpkg", lean: "shouldExcludeSubpkg",
		params: "(excludeSubpkgRegex : List String) (pkgPath : String) (matchString : String → String → Option Bool)",
		result: "Except String Bool",
		atoms:  map[string]string{"c.ExcludeSubpkgRegex": "excludeSubpkgRegex", "pkgPath": "pkgPath"},
		calls:  map[string]string{"regexp.MatchString": "matchString"},
		errs:   map[string]string{"regexp.MatchString": "\"exclude-subpkg-regex\""},
		ignore: []string{"log"},
	},
	{
		file: "internal/cmd/mockery.go", recv: "InterfaceCollection", fn: "Append", lean: "collectionAppend",
		params: "(collPath collPkgName collSrcPkg collTemplate ifacePath ifacePkgName ifaceSrcPkg ifaceTemplate : String)",
		result: "Except String Unit",
		atoms: map[string]string{
			// (the paths are compared in their absolute form: fix "one file spelled two ways")
			"absFilePath(i.outFilePath)": "collPath", "absFilePath(iface.Config.FilePath())": "ifacePath",
			"i.outPkgName": "collPkgName", "*iface.Config.PkgName": "ifacePkgName",
			"i.srcPkgPath": "collSrcPkg", "iface.Pkg.PkgPath": "ifaceSrcPkg",
			"i.template": "collTemplate", "*iface.Config.Template": "ifaceTemplate",
		},
		errs: map[string]string{
			"\"all mocks in an InterfaceCollection must have the same output file path\"": "\"path\"",
			"\"all mocks in an output file must have the same pkgname\"":                  "\"pkgname\"",
			"\"all mocks in an output file must come from the same source package\"":      "\"srcpkg\"",
			"\"all mocks in an output file must use the same template\"":                  "\"template\"",
		},
		ignore:  []string{"log"},
		effects: []string{"i.interfaces = append(i.interfaces, iface)"},
	},
	{
		file: "internal/template_generator.go", recv: "", fn: "validateSchema", lean: "validateSchema",
		params: "{I : Type} (schemaIsNil : Bool) (verifyFile : Option Unit) (interfaces : List I) (verify : I → Option Unit)",
		result: "Except String Unit",
		atoms:  map[string]string{"schema == nil": "schemaIsNil", "data.Interfaces": "interfaces"},
		calls:  map[string]string{"data.TemplateData.VerifyJSONSchema": "verifyFile", "intf.TemplateData.VerifyJSONSchema": "verify v_intf"},
		errs: map[string]string{"\"jschema argument can't be nil\"": "\"nil-schema\"", "\"validating template-data\"": "\"file-level\"",
			"\"verifying template-data for %s: %w\"": "\"interface-level\""},
		ignore:   []string{"log"},
		dropArgs: []string{"ctx", "schema"},
		elemType: "I",
	},
	{
		file: "tools/cmd/tag.go", recv: "Tagger", fn: "Tag", lean: "taggerTag",
		params: "{R V W S : Type} (version : String) (openRepo : String → Option R) (parse : String → Option V) (largest : R → Nat → Option V) (majorOf : V → Nat) (gt : V → V → Bool) (worktreeOf : R → Option W) (statusOf : W → Option S) (isClean : S → Bool) (fullName : V → String) (createTag : R → String → Option Unit)",
		result: "Except String (V × V)",
		atoms: map[string]string{
			"t.Version": "version", "requestedVersion.Major()": "majorOf v_requestedVersion",
			"requestedVersion.GreaterThan(previousVersion)": "gt v_requestedVersion v_previousVersion",
			"status.IsClean()": "isClean v_status", "fmt.Sprintf(\"v%s\", requestedVersion.String())": "fullName v_requestedVersion",
		},
		calls: map[string]string{"git.PlainOpen": "openRepo", "semver.NewVersion": "parse", "t.largestTagSemver": "largest",
			"repo.Worktree": "worktreeOf v_repo", "worktree.Status": "statusOf v_worktree", "t.createTag": "createTag"},
		errs: map[string]string{"git.PlainOpen": "\"open\"", "semver.NewVersion": "\"version\"", "t.largestTagSemver": "\"scan\"",
			"repo.Worktree": "\"worktree\"", "worktree.Status": "\"status\"", "t.createTag": "\"create\"",
			"ErrNoNewVersion": "\"ErrNoNewVersion\"", "\"dirty git state\"": "\"dirty\"",
			"errors.New(err)": "\"wrapped\""},
		ignore:  []string{"logger"},
		effects: []string{"fmt.Println(status.String())"},
	},
}

func init() {
	register("Decide", func(src string) (string, error) {
		var b strings.Builder
		b.WriteString("/- GENERATED by harness/verifx (godecide.go) from the repository's source: decision functions translated\n   statement by statement. Do not edit. -/\nnamespace Mockery.Generated.Decide\n\n")
		for _, s := range decideSpecs {
			d, err := translateDecide(src, s)
			if err != nil {
				// keep the other definitions usable: this one fails to elaborate
				d = fmt.Sprintf("/-- translation failed: %s -/\ndef %s %s : %s :=\n  (show Nat from %s)\n", strings.ReplaceAll(err.Error(), "-/", "- /"), s.lean, s.params, s.result, leanStr(err.Error()))
			}
			b.WriteString(d + "\n")
		}
		b.WriteString("end Mockery.Generated.Decide\n")
		return b.String(), nil
	})
}
