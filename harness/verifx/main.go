//go:build verif

// Command verifx regenerates the Lean fact tables under
// lean/MockeryModel/Generated from the repository's current source
// (DESIGN.md §3.2).  It reads source text only (go/parser, go/ast,
// text/template/parse) and imports nothing from the repository, so it keeps
// working when an API the harness uses changes.
package main

import (
	"flag"
	"fmt"
	"os"
	"path/filepath"
	"strings"
)

type gen struct {
	name string
	fn   func(src string) (string, error)
}

var gens []gen

func register(name string, fn func(src string) (string, error)) { gens = append(gens, gen{name, fn}) }

func main() {
	src := flag.String("src", "", "repository snapshot")
	out := flag.String("out", "", "output directory (lean/MockeryModel/Generated)")
	flag.Parse()
	if *src == "" || *out == "" {
		fmt.Fprintln(os.Stderr, "usage: verifx -src <repo> -out <dir>")
		os.Exit(2)
	}
	failed := false
	for _, g := range gens {
		body, err := g.fn(*src)
		if err != nil {
			// The table cannot be produced: emit a file that fails to elaborate, so
			// every theorem that depends on it is reported as broken.
			body = fmt.Sprintf("/- GENERATED: extraction failed -/\n#eval (show Nat from \"verifx %s: %s\")\n", g.name, strings.ReplaceAll(err.Error(), "\"", "'"))
			fmt.Fprintf(os.Stderr, "verifx: %s: %v\n", g.name, err)
			failed = true
		}
		p := filepath.Join(*out, g.name+".lean")
		old, _ := os.ReadFile(p)
		if string(old) != body {
			if err := os.WriteFile(p, []byte(body), 0o644); err != nil {
				fmt.Fprintln(os.Stderr, err)
				os.Exit(2)
			}
			fmt.Println("updated", g.name)
		}
	}
	if failed {
		os.Exit(1)
	}
}

func leanStr(s string) string {
	var b strings.Builder
	b.WriteByte('"')
	for _, r := range s {
		switch r {
		case '"':
			b.WriteString("\\\"")
		case '\\':
			b.WriteString("\\\\")
		case '\n':
			b.WriteString("\\n")
		case '\t':
			b.WriteString("\\t")
		case '\r':
			b.WriteString("\\r")
		default:
			b.WriteRune(r)
		}
	}
	b.WriteByte('"')
	return b.String()
}

func leanStrList(xs []string) string {
	q := make([]string, len(xs))
	for i, x := range xs {
		q[i] = leanStr(x)
	}
	return "[" + strings.Join(q, ", ") + "]"
}

func leanNatList(xs []int) string {
	q := make([]string, len(xs))
	for i, x := range xs {
		q[i] = fmt.Sprint(x)
	}
	return "[" + strings.Join(q, ", ") + "]"
}
