//go:build verif

package main

// gomerge: the two functions that implement configuration inheritance (config/config.go), translated to Lean
// on every run (Generated/MergeFacts.lean):
//
//   * mergeConfigs – one iteration of the loop over the fields of Config, as the list of effects it has on the
//     destination field, a function of the reflect tests the Go code makes (translator of godecide.go, trace mode);
//   * mergeStringMaps – one iteration of the loop over the source map as a function from the destination map to the
//     destination map (a small translator of its own, below: map lookup with `, ok`, type assertion with `, ok`, the
//     recursive call on a map that was read out of the destination, `continue`, map assignment). The recursive
//     call and copyMapValue are parameters of the Lean definition.
//
// Config/Merge.lean's mergeField and Config/Value.lean's mergeKVs are proved equal to these (C08
// merge_is_the_translated_source).

import (
	"fmt"
	"go/ast"
	"go/parser"
	"go/token"
	"path/filepath"
	"strings"
)

var mergeConfigsSpec = &decideSpec{
	file: "config/config.go", fn: "mergeConfigs", lean: "mergeFieldEffects", loopBody: true, plain: true,
	params: "(srcIsMap srcIsAnyMap destIsAnyMap srcIsPointer destNil srcNil destCanSet destZero : Bool)",
	result: "List String",
	atoms: map[string]string{
		"srcFieldValue.Kind() == reflect.Map":     "srcIsMap",
		"srcFieldValue.Kind() == reflect.Pointer": "srcIsPointer",
		"destFieldValue.IsNil()":                  "destNil",
		"srcFieldValue.IsNil()":                   "srcNil",
		"destMap == nil":                          "destNil",
		"destFieldValue.CanSet()":                 "destCanSet",
		"destFieldValue.IsZero()":                 "destZero",
	},
	okDefs: map[string]string{
		"srcMap, ok := srcFieldValue.Interface().(map[string]any)":   "srcIsAnyMap",
		"destMap, ok := destFieldValue.Interface().(map[string]any)": "destIsAnyMap",
	},
	trace: map[string]string{
		"destFieldValue.Set(srcFieldValue)":                           "set-src",
		"destFieldValue.Set(reflect.ValueOf(make(map[string]any)))":   "init-dest-map",
		"mergeStringMaps(srcMap, destMap)":                            "merge-string-maps",
		"destFieldValue.Set(newValue)":                                "set-copy-of-src",
	},
	effects: []string{
		"srcFieldValue := srcValue.Field(i)", "destFieldValue := destValue.Elem().Field(i)",
		"destMap = destFieldValue.Interface().(map[string]any)",
		"newValue := reflect.New(srcFieldValue.Elem().Type())", "newValue.Elem().Set(srcFieldValue.Elem())",
	},
	ignore: []string{"log", "fieldLog"},
}

// Config.GetReplacement: the two-level lookup of a replace-type entry (plain translation with godecide.go)
var getReplacementSpec = &decideSpec{
	file: "config/config.go", recv: "Config", fn: "GetReplacement", lean: "getReplacement", plain: true,
	params: "{M R : Type} (lookupPkg : String → Option M) (lookupType : M → String → Option R) (pkgPath typeName : String)",
	result: "Option R",
	atoms: map[string]string{
		"c.ReplaceType[pkgPath]": "lookupPkg pkgPath", "pkgMap == nil": "v_pkgMap.isNone", "nil": "none",
		"pkgMap[typeName]": "v_pkgMap.bind (fun m => lookupType m typeName)",
	},
}

// InterfaceConfig.Initialize: what happens to the `configs` list (trace mode): the function as a whole, and one
// iteration of its loop over the entries
var ifaceInitTrace = map[string]string{
	"c.Configs = []*Config{c.Config}":     "configs := [config]",
	"subCfg = &Config{}":                  "entry := {}",
	"c.Configs[i] = subCfg":               "store entry",
	"mergeConfigs(ctx, *c.Config, subCfg)": "merge config into entry",
}

var ifaceInitSpec = &decideSpec{
	file: "config/config.go", recv: "InterfaceConfig", fn: "Initialize", lean: "interfaceInitializeEffects", plain: true,
	params: "(nConfigs : Nat)", result: "List String",
	atoms:  map[string]string{"len(c.Configs)": "nConfigs", "nil": "[]"},
	trace:  ifaceInitTrace,
}

var ifaceInitEntrySpec = &decideSpec{
	file: "config/config.go", recv: "InterfaceConfig", fn: "Initialize", lean: "interfaceInitializeEntryEffects", plain: true, loopBody: true,
	params: "(entryIsNil : Bool)", result: "List String",
	atoms:  map[string]string{"subCfg == nil": "entryIsNil"},
	trace:  ifaceInitTrace,
}

// PackageConfig.Initialize: one iteration of the loop over the listed interfaces (trace mode)
var pkgInitEntrySpec = &decideSpec{
	file: "config/config.go", recv: "PackageConfig", fn: "Initialize", lean: "packageInitializeEntryEffects", plain: true, loopBody: true,
	params: "(ifaceIsNil configIsNil : Bool)", result: "List String",
	atoms:  map[string]string{"ifaceConfig == nil": "ifaceIsNil", "ifaceConfig.Config == nil": "configIsNil"},
	trace: map[string]string{
		"ifaceConfig = NewInterfaceConfig()":                   "iface := new",
		"c.Interfaces[idx] = ifaceConfig":                      "store iface",
		"ifaceConfig.Config = &Config{}":                       "iface.config := {}",
		"mergeConfigs(ctx, *c.Config, ifaceConfig.Config)":     "merge package config into iface.config",
		"if err := ifaceConfig.Initialize(ctx); err != nil { return fmt.Errorf(\"initializing package config: %w\", err) }": "initialize iface",
	},
}

// RootConfig.Initialize: one iteration of the loop over the configured packages (trace mode)
var rootInitEntrySpec = &decideSpec{
	file: "config/config.go", recv: "RootConfig", fn: "Initialize", lean: "rootInitializeEntryEffects", plain: true, loopBody: true,
	params: "(pkgIsNil configIsNil interfacesIsNil recursive : Bool)", result: "List String",
	atoms: map[string]string{"pkgConfig == nil": "pkgIsNil", "pkgConfig.Config == nil": "configIsNil", "pkgConfig.Interfaces == nil": "interfacesIsNil",
		"*pkgConfig.Config.Recursive": "recursive"},
	trace: map[string]string{
		"pkgConfig = NewPackageConfig()":                     "pkg := new",
		"c.Packages[pkgName] = pkgConfig":                    "store pkg",
		"pkgConfig.Config = &Config{}":                       "pkg.config := {}",
		"pkgConfig.Interfaces = map[string]*InterfaceConfig{}": "pkg.interfaces := {}",
		"mergeConfigs(pkgCtx, c.Config, pkgConfig.Config)":   "merge top-level config into pkg.config",
		"if err := pkgConfig.Initialize(pkgCtx); err != nil { return fmt.Errorf(\"initializing root config: %w\", err) }": "initialize pkg",
		"recursivePackages = append(recursivePackages, pkgName)": "mark recursive",
	},
	ignore: []string{"log", "pkgLog"},
}

// RootConfig.Initialize: one iteration of the loop over the sub-packages of a recursive package (trace mode)
var rootInjectEntrySpec = &decideSpec{
	file: "config/config.go", recv: "RootConfig", fn: "Initialize", lean: "rootInjectEntryEffects", plain: true, loopBody: true, loopOver: "subpkgs",
	params: "(shouldExclude : Option Bool) (exists_ : Bool)", result: "List String",
	atoms: map[string]string{
		"existingSubPkg, exists := c.Packages[subpkg]; exists": "exists_",
		"fmt.Errorf(\"evaluating `exclude-subpkg-regex` of %s: %w\", recursivePackageName, err)": "[\"error: exclude-subpkg-regex\"]",
	},
	calls: map[string]string{"parentPkgConfig.Config.ShouldExcludeSubpkg": "shouldExclude"},
	trace: map[string]string{
		"subPkgConfig = existingSubPkg":                                        "sub := existing",
		"subPkgConfig = NewPackageConfig()":                                    "sub := new",
		"mergeConfigs(pkgCtx, *parentPkgConfig.Config, subPkgConfig.Config)":   "merge parent config into sub.config",
		"c.Packages[subpkg] = subPkgConfig":                                    "store sub",
	},
	dropArgs: []string{"subpkg"},
	ignore:   []string{"log", "pkgLog"},
}

// Config.ParseTemplates: one iteration of the inner loop over the templated parameters (trace mode)
var parseTemplatesEntrySpec = &decideSpec{
	file: "config/config.go", recv: "Config", fn: "ParseTemplates", lean: "parseTemplatesEntryEffects", plain: true, loopBody: true, loopOver: "templateMap", loopSkip: 1,
	params: "(parsed executed : Option Unit) (changed : Bool)", result: "List String",
	atoms: map[string]string{
		"*attributePointer != oldVal": "changed",
		"fmt.Errorf(\"failed to parse %s template: %w\", name, err)":   "[\"error: parse\"]",
		"fmt.Errorf(\"failed to execute %s template: %w\", name, err)": "[\"error: execute\"]",
	},
	calls: map[string]string{
		"template.New(\"config-template\").Funcs(template_funcs.FuncMap).Parse": "parsed",
		"attributeTempl.Execute": "executed",
	},
	trace: map[string]string{
		"*attributePointer = parsedBuffer.String()": "store rendered",
		"changesMade = true":                        "changesMade := true",
	},
	effects:  []string{"oldVal := *attributePointer"},
	dropArgs: []string{"*attributePointer", "&parsedBuffer", "data"},
	ignore:   []string{"log"},
}

// Config.ParseTemplates: one iteration of the outer loop (one round), trace mode
var parseTemplatesRoundSpec = &decideSpec{
	file: "config/config.go", recv: "Config", fn: "ParseTemplates", lean: "parseTemplatesRoundEffects", plain: true, loopBody: true,
	params: "(capReached : Bool)", result: "List String",
	atoms:  map[string]string{"i >= 20": "capReached", "ErrInfiniteLoop": "[\"error: infinite loop\"]"},
	trace:  map[string]string{"changesMade = false": "changesMade := false"},
	ignore: []string{"log", "l"},
}

// ---- mergeStringMaps ----

type mapTr struct {
	fset *token.FileSet
	self string
	src, dest string // parameter names
	key, val  string // range variables
	// variable -> the destination key it was read from (provenance of map values read out of dest)
	from map[string]string
}

func (t *mapTr) text(n ast.Node) string { return (&decideTr{fset: t.fset}).text(n) }

// stmts translates one iteration in continuation style: the value is the destination map after the iteration.
func (t *mapTr) stmts(ss []ast.Stmt) (string, error) {
	if len(ss) == 0 {
		return "v_" + t.dest, nil
	}
	s, rest := ss[0], ss[1:]
	switch x := s.(type) {
	case *ast.BranchStmt:
		if x.Tok == token.CONTINUE && x.Label == nil {
			return "v_" + t.dest, nil
		}
	case *ast.IfStmt:
		as, ok := x.Init.(*ast.AssignStmt)
		if !ok || x.Else != nil || len(as.Lhs) != 2 || len(as.Rhs) != 1 || as.Tok != token.DEFINE || t.text(x.Cond) != t.text(as.Lhs[1]) {
			break
		}
		v := t.text(as.Lhs[0])
		thenStmts := append(append([]ast.Stmt{}, x.Body.List...), rest...)
		switch r := as.Rhs[0].(type) {
		case *ast.IndexExpr: // v, ok := dest[key]
			if t.text(r.X) != t.dest || t.text(r.Index) != t.key {
				break
			}
			t.from[v] = t.key
			thn, err := t.stmts(thenStmts)
			if err != nil {
				return "", err
			}
			els, err := t.stmts(rest)
			if err != nil {
				return "", err
			}
			return fmt.Sprintf("(match lookup v_%s v_%s with\n  | some v_%s => %s\n  | none => %s)", t.key, t.dest, v, thn, els), nil
		case *ast.TypeAssertExpr: // v, ok := x.(map[string]any)
			if t.text(r.Type) != "map[string]any" {
				break
			}
			from := t.text(r.X)
			if k, ok := t.from[from]; ok {
				t.from[v] = k
			}
			thn, err := t.stmts(thenStmts)
			if err != nil {
				return "", err
			}
			els, err := t.stmts(rest)
			if err != nil {
				return "", err
			}
			return fmt.Sprintf("(match v_%s with\n  | .node v_%s => %s\n  | _ => %s)", from, v, thn, els), nil
		}
	case *ast.ExprStmt: // mergeStringMaps(a, b) with b read out of dest[key]: the entry is updated in place
		if call, ok := x.X.(*ast.CallExpr); ok && t.text(call.Fun) == t.self && len(call.Args) == 2 {
			a, b := t.text(call.Args[0]), t.text(call.Args[1])
			k, ok := t.from[b]
			if !ok {
				return "", fmt.Errorf("recursive call on a map of unknown origin: %s", t.text(x))
			}
			cont, err := t.stmts(rest)
			if err != nil {
				return "", err
			}
			return fmt.Sprintf("(let v_%s := replace v_%s (.node (recur v_%s v_%s)) v_%s\n  %s)", t.dest, k, a, b, t.dest, cont), nil
		}
	case *ast.AssignStmt: // dest[key] = f(value)
		if len(x.Lhs) == 1 && len(x.Rhs) == 1 && x.Tok == token.ASSIGN {
			if ix, ok := x.Lhs[0].(*ast.IndexExpr); ok && t.text(ix.X) == t.dest && t.text(ix.Index) == t.key {
				if call, ok := x.Rhs[0].(*ast.CallExpr); ok && t.text(call.Fun) == "copyMapValue" && len(call.Args) == 1 && t.text(call.Args[0]) == t.val {
					cont, err := t.stmts(rest)
					if err != nil {
						return "", err
					}
					return fmt.Sprintf("(let v_%s := setKey v_%s (copyMapValue v_%s) v_%s\n  %s)", t.dest, t.key, t.val, t.dest, cont), nil
				}
			}
		}
	}
	return "", fmt.Errorf("statement not in the subset: %s", strings.SplitN(t.text(s), "{", 2)[0])
}

func translateMergeStringMaps(src string) (string, error) {
	fset := token.NewFileSet()
	f, err := parser.ParseFile(fset, filepath.Join(src, "config/config.go"), nil, 0)
	if err != nil {
		return "", err
	}
	for _, d := range f.Decls {
		fd, ok := d.(*ast.FuncDecl)
		if !ok || fd.Name.Name != "mergeStringMaps" || fd.Recv != nil || fd.Body == nil {
			continue
		}
		var names []string
		for _, p := range fd.Type.Params.List {
			for _, n := range p.Names {
				names = append(names, n.Name)
			}
		}
		if len(names) != 2 || len(fd.Body.List) != 1 {
			return "", fmt.Errorf("mergeStringMaps: expected two parameters and a single loop")
		}
		loop, ok := fd.Body.List[0].(*ast.RangeStmt)
		if !ok || loop.Key == nil || loop.Value == nil {
			return "", fmt.Errorf("mergeStringMaps: the body is not a range loop over key and value")
		}
		t := &mapTr{fset: fset, self: "mergeStringMaps", src: names[0], dest: names[1], from: map[string]string{}}
		t.key, t.val = t.text(loop.Key), t.text(loop.Value)
		if t.text(loop.X) != t.src {
			return "", fmt.Errorf("mergeStringMaps: the loop does not range over the first parameter")
		}
		body, err := t.stmts(loop.Body.List)
		if err != nil {
			return "", fmt.Errorf("mergeStringMaps: %v", err)
		}
		return fmt.Sprintf("/-- translated from one iteration of the loop of `mergeStringMaps` (config/config.go): the destination map after\nthe iteration for the source entry (`v_%s`, `v_%s`); `recur` is the recursive call, `setKey` map assignment -/\ndef mergeStringMapsStep (recur : KVs → KVs → KVs) (copyMapValue : TD → TD) (setKey : String → TD → KVs → KVs) (v_%s : String) (v_%s : TD) (v_%s : KVs) : KVs :=\n  %s\n",
			t.key, t.val, t.key, t.val, t.dest, body), nil
	}
	return "", fmt.Errorf("mergeStringMaps not found")
}

func init() {
	register("MergeFacts", func(src string) (string, error) {
		var b strings.Builder
		b.WriteString("import MockeryModel.Config.Value\n/- GENERATED by harness/verifx (gomerge.go) from config/config.go. Do not edit. -/\nnamespace Mockery.Generated.Merge\nopen Mockery.Config\n\n")
		d, err := translateDecide(src, mergeConfigsSpec)
		if err != nil {
			d = fmt.Sprintf("/-- translation failed: %s -/\ndef %s %s : %s :=\n  (show Nat from %s)\n", strings.ReplaceAll(err.Error(), "-/", "- /"), mergeConfigsSpec.lean, mergeConfigsSpec.params, mergeConfigsSpec.result, leanStr(err.Error()))
		}
		b.WriteString(d + "\n")
		m, err := translateMergeStringMaps(src)
		if err != nil {
			m = fmt.Sprintf("/-- translation failed: %s -/\ndef mergeStringMapsStep : Nat := (show Nat from %s)\n", strings.ReplaceAll(err.Error(), "-/", "- /"), leanStr(err.Error()))
		}
		b.WriteString(m + "\n")
		g, err := translateDecide(src, getReplacementSpec)
		if err != nil {
			g = fmt.Sprintf("/-- translation failed: %s -/\ndef getReplacement : Nat := (show Nat from %s)\n", strings.ReplaceAll(err.Error(), "-/", "- /"), leanStr(err.Error()))
		}
		b.WriteString(g + "\n")
		for _, sp := range []*decideSpec{ifaceInitSpec, ifaceInitEntrySpec, pkgInitEntrySpec, rootInitEntrySpec, rootInjectEntrySpec, parseTemplatesEntrySpec, parseTemplatesRoundSpec} {
			d, err := translateDecide(src, sp)
			if err != nil {
				d = fmt.Sprintf("/-- translation failed: %s -/\ndef %s %s : %s :=\n  (show Nat from %s)\n", strings.ReplaceAll(err.Error(), "-/", "- /"), sp.lean, sp.params, sp.result, leanStr(err.Error()))
			}
			b.WriteString(d + "\n")
		}
		b.WriteString("end Mockery.Generated.Merge\n")
		return b.String(), nil
	})
}
