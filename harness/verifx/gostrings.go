//go:build verif

package main

// gostrings: a translator for the string accessors the templates call on the data model
// (template/method.go, template/param_data.go): small Go methods built from field access,
// calls of each other, string concatenation, fmt.Sprintf with %s verbs, strings.Join,
// strings.Replace(…, 1), slicing, len, integer comparisons, `if … return`, the
// "make + fill by range" idiom and "return true from a range loop". Every method becomes a Lean
// definition over plain records (Generated/Accessors.lean); Gen/Data.lean's accessors are
// proved equal to them (MockeryProps/C14). A method outside the subset becomes a definition
// that does not elaborate.

import (
	"fmt"
	"go/ast"
	"go/parser"
	"go/token"
	"path/filepath"
	"sort"
	"strings"
)

type accTr struct {
	fset *token.FileSet
	// variable -> record type ("Param", "Method", "ListParam", "ListString", "String", "Int", "Bool")
	types map[string]string
	// methods known per record type -> result type
	methods map[string]map[string]string
}

var accFields = map[string]map[string][2]string{
	// Go field -> Lean field, type
	"Param":  {"Variadic": {"variadic", "Bool"}},
	"Method": {"Name": {"name", "String"}, "Params": {"params", "ListParam"}, "Returns": {"returns", "ListParam"}},
}

func lowerFirst(s string) string {
	if s == "" {
		return s
	}
	return strings.ToLower(s[:1]) + s[1:]
}

func accName(recv, m string) string { return recv + "." + m }

func (t *accTr) txt(n ast.Node) string { return nodeText(t.fset, n) }

// expr returns the Lean text and the type of a Go expression
func (t *accTr) expr(e ast.Expr) (string, string, error) {
	switch x := e.(type) {
	case *ast.ParenExpr:
		return t.expr(x.X)
	case *ast.BasicLit:
		switch x.Kind {
		case token.STRING:
			if strings.HasPrefix(x.Value, "`") {
				return leanStr(strings.Trim(x.Value, "`")), "String", nil
			}
			return x.Value, "String", nil
		case token.INT:
			return "(" + x.Value + " : Int)", "Int", nil
		}
	case *ast.Ident:
		switch x.Name {
		case "true", "false":
			return x.Name, "Bool", nil
		}
		if ty, ok := t.types[x.Name]; ok {
			return "v_" + x.Name, ty, nil
		}
		return "", "", fmt.Errorf("unknown identifier %s", x.Name)
	case *ast.UnaryExpr:
		a, ty, err := t.expr(x.X)
		if err != nil {
			return "", "", err
		}
		if x.Op == token.NOT && ty == "Bool" {
			return "(!" + a + ")", "Bool", nil
		}
		if x.Op == token.SUB && ty == "Int" {
			return "(-" + a + ")", "Int", nil
		}
	case *ast.BinaryExpr:
		a, ta, err := t.expr(x.X)
		if err != nil {
			return "", "", err
		}
		b, tb, err := t.expr(x.Y)
		if err != nil {
			return "", "", err
		}
		if ta != tb {
			return "", "", fmt.Errorf("operands of different types in %s", t.txt(e))
		}
		switch x.Op {
		case token.ADD:
			if ta == "String" {
				return "(" + a + " ++ " + b + ")", "String", nil
			}
			return "(" + a + " + " + b + ")", ta, nil
		case token.SUB:
			return "(" + a + " - " + b + ")", ta, nil
		case token.EQL:
			return "(" + a + " == " + b + ")", "Bool", nil
		case token.NEQ:
			return "(" + a + " != " + b + ")", "Bool", nil
		case token.LSS:
			return "(decide (" + a + " < " + b + "))", "Bool", nil
		case token.GTR:
			return "(decide (" + a + " > " + b + "))", "Bool", nil
		case token.LEQ:
			return "(decide (" + a + " ≤ " + b + "))", "Bool", nil
		case token.GEQ:
			return "(decide (" + a + " ≥ " + b + "))", "Bool", nil
		case token.LAND:
			return "(" + a + " && " + b + ")", "Bool", nil
		case token.LOR:
			return "(" + a + " || " + b + ")", "Bool", nil
		}
	case *ast.SelectorExpr:
		// p.Var.Name
		if inner, ok := x.X.(*ast.SelectorExpr); ok && inner.Sel.Name == "Var" && x.Sel.Name == "Name" {
			a, ty, err := t.expr(inner.X)
			if err != nil {
				return "", "", err
			}
			if ty == "Param" {
				return a + ".name", "String", nil
			}
		}
		a, ty, err := t.expr(x.X)
		if err != nil {
			return "", "", err
		}
		if f, ok := accFields[ty][x.Sel.Name]; ok {
			return a + "." + f[0], f[1], nil
		}
		return "", "", fmt.Errorf("field %s of %s is not in the record", x.Sel.Name, ty)
	case *ast.IndexExpr:
		a, ty, err := t.expr(x.X)
		if err != nil {
			return "", "", err
		}
		i, ti, err := t.expr(x.Index)
		if err != nil {
			return "", "", err
		}
		if ty == "ListParam" && ti == "Int" {
			return "(goIndex " + a + " " + i + ")", "Param", nil
		}
	case *ast.SliceExpr:
		a, ty, err := t.expr(x.X)
		if err != nil {
			return "", "", err
		}
		lo, hi := "(0 : Int)", ""
		if x.Low != nil {
			l, tl, err := t.expr(x.Low)
			if err != nil || tl != "Int" {
				return "", "", fmt.Errorf("slice bound: %v", err)
			}
			lo = l
		}
		if x.High != nil {
			h, th, err := t.expr(x.High)
			if err != nil || th != "Int" {
				return "", "", fmt.Errorf("slice bound: %v", err)
			}
			hi = h
		}
		switch {
		case ty == "String" && hi == "":
			return "(goStrFrom " + a + " " + lo + ")", "String", nil
		case ty == "ListParam" && hi != "":
			return "(goSlice " + a + " " + lo + " " + hi + ")", "ListParam", nil
		}
	case *ast.CallExpr:
		fun := t.txt(x.Fun)
		switch fun {
		case "len":
			a, ty, err := t.expr(x.Args[0])
			if err != nil {
				return "", "", err
			}
			if ty == "String" {
				return "(goLenStr " + a + ")", "Int", nil
			}
			return "((" + a + ").length : Int)", "Int", nil
		case "strings.Join":
			a, ty, err := t.expr(x.Args[0])
			if err != nil || ty != "ListString" {
				return "", "", fmt.Errorf("strings.Join of %s: %v", ty, err)
			}
			s, _, err := t.expr(x.Args[1])
			if err != nil {
				return "", "", err
			}
			return "(goJoin " + a + " " + s + ")", "String", nil
		case "strings.Replace":
			if len(x.Args) == 4 && t.txt(x.Args[3]) == "1" {
				var as []string
				for _, a := range x.Args[:3] {
					s, ty, err := t.expr(a)
					if err != nil || ty != "String" {
						return "", "", fmt.Errorf("strings.Replace argument: %v", err)
					}
					as = append(as, s)
				}
				return "(goReplaceFirst " + strings.Join(as, " ") + ")", "String", nil
			}
		case "fmt.Sprintf":
			f, ok := x.Args[0].(*ast.BasicLit)
			if !ok || f.Kind != token.STRING || !strings.HasPrefix(f.Value, "\"") {
				break
			}
			format := strings.Trim(f.Value, "\"")
			parts := strings.Split(format, "%s")
			if len(parts) != len(x.Args) || strings.Contains(strings.Join(parts, ""), "%") {
				return "", "", fmt.Errorf("fmt.Sprintf format outside the subset: %s", f.Value)
			}
			out := []string{}
			for i, p := range parts {
				if p != "" {
					out = append(out, "\""+p+"\"")
				}
				if i < len(parts)-1 {
					a, ty, err := t.expr(x.Args[i+1])
					if err != nil || ty != "String" {
						return "", "", fmt.Errorf("fmt.Sprintf argument: %v", err)
					}
					out = append(out, a)
				}
			}
			if len(out) == 0 {
				return "\"\"", "String", nil
			}
			return "(" + strings.Join(out, " ++ ") + ")", "String", nil
		}
		// method calls: recv.M(args…), also recv.Var.TypeString()
		if sel, ok := x.Fun.(*ast.SelectorExpr); ok {
			if inner, ok := sel.X.(*ast.SelectorExpr); ok && inner.Sel.Name == "Var" && sel.Sel.Name == "TypeString" && len(x.Args) == 0 {
				a, ty, err := t.expr(inner.X)
				if err != nil {
					return "", "", err
				}
				if ty == "Param" {
					return a + ".typeString", "String", nil
				}
			}
			a, ty, err := t.expr(sel.X)
			if err != nil {
				return "", "", err
			}
			if rt, ok := t.methods[ty][sel.Sel.Name]; ok {
				args := []string{a}
				for _, g := range x.Args {
					s, _, err := t.expr(g)
					if err != nil {
						return "", "", err
					}
					args = append(args, s)
				}
				return "(" + accName(ty, sel.Sel.Name) + " " + strings.Join(args, " ") + ")", rt, nil
			}
			return "", "", fmt.Errorf("method %s.%s is not translated", ty, sel.Sel.Name)
		}
	}
	return "", "", fmt.Errorf("expression not in the subset: %s", t.txt(e))
}

// stmts in continuation style; the function's result type is rt
func (t *accTr) stmts(ss []ast.Stmt, rt string) (string, error) {
	if len(ss) == 0 {
		return "", fmt.Errorf("control reaches the end of the function")
	}
	s, rest := ss[0], ss[1:]
	switch x := s.(type) {
	case *ast.ReturnStmt:
		if len(x.Results) != 1 {
			return "", fmt.Errorf("return with %d results", len(x.Results))
		}
		v, ty, err := t.expr(x.Results[0])
		if err != nil {
			return "", err
		}
		if ty != rt {
			return "", fmt.Errorf("returns %s where %s is declared", ty, rt)
		}
		return v, nil
	case *ast.IfStmt:
		if x.Init != nil || x.Else != nil {
			break
		}
		c, ty, err := t.expr(x.Cond)
		if err != nil || ty != "Bool" {
			return "", fmt.Errorf("condition: %v", err)
		}
		if hasReturn(x.Body.List) {
			thn, err := t.stmts(x.Body.List, rt)
			if err != nil {
				return "", err
			}
			els, err := t.stmts(rest, rt)
			if err != nil {
				return "", err
			}
			return fmt.Sprintf("(if %s then %s\n    else %s)", c, thn, els), nil
		}
		// only assignments to variables that exist: each becomes a conditional rebinding
		var lets []string
		for _, b := range x.Body.List {
			as, ok := b.(*ast.AssignStmt)
			if !ok || as.Tok != token.ASSIGN || len(as.Lhs) != 1 || len(as.Rhs) != 1 {
				return "", fmt.Errorf("if body outside the subset: %s", t.txt(b))
			}
			id, ok := as.Lhs[0].(*ast.Ident)
			if !ok || t.types[id.Name] == "" {
				return "", fmt.Errorf("assignment to %s", t.txt(as.Lhs[0]))
			}
			v, _, err := t.expr(as.Rhs[0])
			if err != nil {
				return "", err
			}
			lets = append(lets, fmt.Sprintf("let v_%s := (if %s then %s else v_%s);", id.Name, c, v, id.Name))
		}
		cont, err := t.stmts(rest, rt)
		if err != nil {
			return "", err
		}
		return "(" + strings.Join(lets, "\n    ") + "\n    " + cont + ")", nil
	case *ast.AssignStmt:
		if len(x.Lhs) == 1 && len(x.Rhs) == 1 {
			id, ok := x.Lhs[0].(*ast.Ident)
			if !ok {
				break
			}
			// params := make([]string, len(X)) ; for i, p := range X { params[i] = E }
			if call, ok := x.Rhs[0].(*ast.CallExpr); ok && t.txt(call.Fun) == "make" && len(call.Args) == 2 && t.txt(call.Args[0]) == "[]string" && len(rest) > 0 {
				if rg, ok := rest[0].(*ast.RangeStmt); ok && len(rg.Body.List) == 1 {
					if t.txt(call.Args[1]) == "len("+t.txt(rg.X)+")" {
						if fill, ok := rg.Body.List[0].(*ast.AssignStmt); ok && len(fill.Lhs) == 1 && rg.Key != nil && rg.Value != nil &&
							t.txt(fill.Lhs[0]) == id.Name+"["+t.txt(rg.Key)+"]" {
							coll, cty, err := t.expr(rg.X)
							if err != nil || cty != "ListParam" {
								return "", fmt.Errorf("range over %s: %v", cty, err)
							}
							pv := t.txt(rg.Value)
							t.types[pv] = "Param"
							el, ety, err := t.expr(fill.Rhs[0])
							if err != nil || ety != "String" {
								return "", fmt.Errorf("fill expression: %v", err)
							}
							delete(t.types, pv)
							t.types[id.Name] = "ListString"
							cont, err := t.stmts(rest[1:], rt)
							if err != nil {
								return "", err
							}
							return fmt.Sprintf("(let v_%s := ((%s).map (fun v_%s => %s));\n    %s)", id.Name, coll, pv, el, cont), nil
						}
					}
				}
			}
			v, ty, err := t.expr(x.Rhs[0])
			if err != nil {
				return "", err
			}
			t.types[id.Name] = ty
			cont, err := t.stmts(rest, rt)
			if err != nil {
				return "", err
			}
			return fmt.Sprintf("(let v_%s := (%s);\n    %s)", id.Name, v, cont), nil
		}
	case *ast.RangeStmt:
		// for _, x := range L { if C { return true } } ; return false
		if len(x.Body.List) == 1 && len(rest) == 1 && rt == "Bool" {
			ifs, ok1 := x.Body.List[0].(*ast.IfStmt)
			last, ok2 := rest[0].(*ast.ReturnStmt)
			if ok1 && ok2 && ifs.Init == nil && ifs.Else == nil && len(ifs.Body.List) == 1 && t.txt(ifs.Body.List[0]) == "return true" && t.txt(last) == "return false" && x.Value != nil {
				coll, cty, err := t.expr(x.X)
				if err != nil || cty != "ListParam" {
					return "", fmt.Errorf("range over %s: %v", cty, err)
				}
				pv := t.txt(x.Value)
				t.types[pv] = "Param"
				c, _, err := t.expr(ifs.Cond)
				delete(t.types, pv)
				if err != nil {
					return "", err
				}
				return fmt.Sprintf("((%s).any (fun v_%s => %s))", coll, pv, c), nil
			}
		}
	}
	return "", fmt.Errorf("statement not in the subset: %s", strings.SplitN(t.txt(s), "{", 2)[0])
}

func leanTypeOf(goType string) string {
	switch goType {
	case "string":
		return "String"
	case "bool":
		return "Bool"
	case "int":
		return "Int"
	}
	return ""
}

func genAccessors(src string) (string, error) {
	type fn struct {
		recv string
		decl *ast.FuncDecl
		fset *token.FileSet
	}
	var fns []fn
	methods := map[string]map[string]string{"Param": {}, "Method": {}}
	for _, file := range []string{"template/param_data.go", "template/method.go"} {
		fset := token.NewFileSet()
		f, err := parser.ParseFile(fset, filepath.Join(src, file), nil, 0)
		if err != nil {
			return "", err
		}
		for _, d := range f.Decls {
			fd, ok := d.(*ast.FuncDecl)
			if !ok || fd.Recv == nil || fd.Body == nil || len(fd.Recv.List) != 1 || len(fd.Recv.List[0].Names) != 1 {
				continue
			}
			rt, ok := fd.Recv.List[0].Type.(*ast.Ident)
			if !ok || (rt.Name != "Param" && rt.Name != "Method") {
				continue
			}
			if fd.Type.Results == nil || len(fd.Type.Results.List) != 1 {
				continue
			}
			res := leanTypeOf(nodeText(fset, fd.Type.Results.List[0].Type))
			if res == "" {
				continue
			}
			methods[rt.Name][fd.Name.Name] = res
			fns = append(fns, fn{rt.Name, fd, fset})
		}
	}
	// dependency order: a method after the methods it calls
	calls := func(f fn) []string {
		var out []string
		ast.Inspect(f.decl.Body, func(n ast.Node) bool {
			if c, ok := n.(*ast.CallExpr); ok {
				if sel, ok := c.Fun.(*ast.SelectorExpr); ok {
					for r := range methods {
						if _, ok := methods[r][sel.Sel.Name]; ok {
							out = append(out, sel.Sel.Name)
						}
					}
				}
			}
			return true
		})
		return out
	}
	sort.SliceStable(fns, func(i, j int) bool { return fns[i].recv == "Param" && fns[j].recv == "Method" })
	done := map[string]bool{}
	var order []fn
	for len(order) < len(fns) {
		progress := false
		for _, f := range fns {
			if done[f.decl.Name.Name] {
				continue
			}
			ready := true
			for _, c := range calls(f) {
				if !done[c] && c != f.decl.Name.Name {
					ready = false
				}
			}
			if ready {
				order = append(order, f)
				done[f.decl.Name.Name] = true
				progress = true
			}
		}
		if !progress {
			return "", fmt.Errorf("the accessors call each other in a cycle")
		}
	}
	var b strings.Builder
	b.WriteString("import MockeryModel.Go.StrPrelude\n/- GENERATED by harness/verifx (gostrings.go) from template/param_data.go and template/method.go: the string\n   accessors of the data model, translated statement by statement. Do not edit. -/\nnamespace Mockery.Generated.Accessors\nopen Mockery.Go.StrPrelude\n\n")
	b.WriteString("structure Param where\n  name : String\n  typeString : String\n  variadic : Bool\n  deriving Repr, Inhabited\n\nstructure Method where\n  name : String\n  params : List Param\n  returns : List Param\n  deriving Repr, Inhabited\n\n")
	for _, f := range order {
		t := &accTr{fset: f.fset, types: map[string]string{}, methods: methods}
		rv := f.decl.Recv.List[0].Names[0].Name
		t.types[rv] = f.recv
		params := []string{fmt.Sprintf("(v_%s : %s)", rv, f.recv)}
		ok := true
		for _, p := range f.decl.Type.Params.List {
			lt := leanTypeOf(nodeText(f.fset, p.Type))
			if lt == "" {
				ok = false
			}
			for _, n := range p.Names {
				t.types[n.Name] = lt
				params = append(params, fmt.Sprintf("(v_%s : %s)", n.Name, lt))
			}
		}
		rt := methods[f.recv][f.decl.Name.Name]
		name := accName(f.recv, f.decl.Name.Name)
		var body string
		var err error
		if !ok {
			err = fmt.Errorf("parameter type outside the subset")
		} else {
			body, err = t.stmts(f.decl.Body.List, rt)
		}
		if err != nil {
			fmt.Fprintf(&b, "/-- `%s.%s`: translation failed: %s -/\ndef %s %s : %s :=\n  (show Nat from %s)\n\n", f.recv, f.decl.Name.Name, strings.ReplaceAll(err.Error(), "-/", "- /"), name, strings.Join(params, " "), rt, leanStr(err.Error()))
			continue
		}
		fmt.Fprintf(&b, "/-- `%s.%s` -/\ndef %s %s : %s :=\n  %s\n\n", f.recv, f.decl.Name.Name, name, strings.Join(params, " "), rt, body)
	}
	b.WriteString("end Mockery.Generated.Accessors\n")
	return b.String(), nil
}

func init() { register("Accessors", genAccessors) }
